#!/bin/bash
# usage: tools/seeds_run.sh <out file> <seed>...   - runs every check's quick tier with each seed (evidence goes to a scratch dir)
out=$1; shift
export VERIF_EVIDENCE_DIR=/verif/work/evidence_scratch
for seed in "$@"; do
  for c in C01 C02 C03 C04 C05 C06 C07 C08 C09 C10 C11 C12 C13 C14 C15 C16 C17 C18 C19 C20; do
    t0=$(date +%s); /verif/check $c --seed $seed > /verif/work/seedrun.$c.out 2>&1; code=$?; t1=$(date +%s)
    echo "seed=$seed $c exit=$code $((t1-t0))s $(grep -c '^VIOLATION' /verif/work/seedrun.$c.out) violations; $(grep -m1 '^failure class\|^INCONCLUSIVE' /verif/work/seedrun.$c.out | cut -c1-300)" >> $out
  done
done
echo done >> $out
