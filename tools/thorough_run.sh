#!/bin/bash
# usage: tools/thorough_run.sh <out file> [check ids...]   - runs thorough tiers one after the other (evidence to a scratch dir)
out=$1; shift
ids="$@"
[ -z "$ids" ] && ids="C17 C14 C15 C16 C13 C20 C12 C11 C10 C01 C02 C03 C04 C05 C06 C07 C08 C09 C18 C19"
export VERIF_EVIDENCE_DIR=/verif/work/evidence_thorough
for c in $ids; do
  t0=$(date +%s); /verif/check $c --tier thorough > /verif/work/thorough.$c.out 2>&1; code=$?; t1=$(date +%s)
  echo "$c exit=$code $((t1-t0))s $(grep -m1 '^C[0-9]* tier' /verif/work/thorough.$c.out | cut -c1-160) :: $(grep -m1 '^failure class\|^INCONCLUSIVE' /verif/work/thorough.$c.out | cut -c1-300)" >> $out
done
echo done >> $out
