#!/bin/bash
# usage: tools/fuzz.sh <check id> [phase] [seconds]   - coverage-guided (libFuzzer) search over the tape of one check
# The fuzzer's input bytes are the tape of a case; a failing verdict (other than an open known finding) is a crash.
# Corpus and artifacts: /verif/work/fuzz/<id>_<phase>/ . Needs the nightly toolchain (cargo +nightly fuzz), offline.
id=${1:?check id}; phase=${2:-0}; secs=${3:-300}
dir=/verif/work/fuzz/${id}_${phase}
mkdir -p "$dir/corpus" "$dir/artifacts"
cd /verif/harness || exit 2
ASAN_OPTIONS=detect_leaks=0 VERIF_FUZZ_CHECK=$id VERIF_FUZZ_PHASE=$phase CARGO_NET_OFFLINE=true cargo +nightly fuzz run tape "$dir/corpus" -- \
  -max_total_time=$secs -max_len=2048 -len_control=0 -timeout=30 -detect_leaks=0 -rss_limit_mb=6000 -artifact_prefix="$dir/artifacts/" -print_final_stats=1 2>&1 \
  | grep -E "^#[0-9]+\s+(INITED|DONE)|^stat::|VIOLATION|panicked|ERROR|SUMMARY|Test unit written" | tail -20
ls "$dir/artifacts" 2>/dev/null | head
