#!/bin/bash
# usage: tools/try_seed.sh <patch.diff> <check id>...   -- applies a seeded change to /repo, runs quick checks, reverts
P="$(realpath "$1")"; shift
if ! git -C /repo diff --quiet; then echo "/repo dirty"; exit 2; fi
git -C /repo apply "$P" || exit 2
export VERIF_EVIDENCE_DIR=/verif/work/evidence_scratch
for c in "$@"; do
  t0=$(date +%s); /verif/check "$c" --tier quick > /verif/work/seed.$c.out 2>&1; code=$?; t1=$(date +%s)
  echo "$c exit=$code $((t1-t0))s :: $(grep -m1 '^failure class' /verif/work/seed.$c.out | cut -c1-220)"
done
git -C /repo checkout -- .
