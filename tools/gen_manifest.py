#!/usr/bin/env python3
"""Regenerates /verif/MANIFEST.json from the table below (claimed checks + not_applicable)."""
import json, os
V = os.path.dirname(os.path.dirname(os.path.abspath(__file__)))
ALL = ["C%02d" % i for i in range(1, 21)]

CLAIMED = {
 "C20": dict(
   level="exploration",
   text="Per case 1-10 requests against a fresh receiver session (ECMAScript or rfsm-expression) of an executor with the BasicHTTP processor (127.0.0.1:5555), issued by 1-8 concurrent posters: valid POSTs (1-3 extra fields / only _content / only the name), POSTs to an unknown session, without _scxmleventname, with a non-numeric session path, and events sent by a second session with <send type='basichttp' | full URI> to the location the receiver reads from _ioprocessors. Names and values over an alphabet that needs percent-encoding (space & = + % # ? / non-ASCII newline quotes < ; ~ dots brackets upper/lower case); bodies written by the harness' own encoder with generated spelling choices over a raw TCP socket. Oracle: 2xx and exactly one event with that name whose _event.data holds exactly the other fields (or the _content value); invalid request: status >= 400 and no event before the sentinel; session send: exactly one event with the same name and the textual form of each parameter.",
   design="6/C20",
   note="Loopback only; one worker because the processor binds the fixed port 5555 (lock file /verif/work/c20.port5555.lock); a busy port makes the run inconclusive (exit 2), never a violation. _event.raw and requests carrying _content together with other fields are outside the property.",
   technique="property-based testing: generated HTTP requests with an independent percent-encoder + exactly-once/field-equality/status oracle; differential send-side vs receive-side encoding"),
 "C14": dict(
   level="exploration",
   text="Parent/child document pairs from templates with generated parameters (1-3 invokes with inline content in a compound or parallel invoking state, explicit or generated invoke ids, autoforward, namelist/param for declared and undeclared child data, finalize blocks whose effect a transition guard reads, a state entered and left within one macrostep, an independent invoking state in a sibling region, children of five kinds incl. one with an invoked grandchild; rfsm-expression and ECMAScript) driven by generated host scripts (enter / leave / re-enter, host events, stop requests, pauses 0-8 ms, optional lock jitter). All sessions write one merged time-stamped mark log; eight history invariants decide: started exactly once per surviving entry and never for the flash state, only declared data receive values, cancelled on exit (and only then), invokeid on child events, finalize before selection and only for its own invoke, every host event forwarded to autoforward children, done.invoke exactly once after all other events of that child, nothing processed from a child after its state was exited.",
   design="6/C14",
   note="Relative timings of child events, completion and cancellation are sampled (OS scheduler, pauses, lock jitter), not enumerated. Obligations that need time are awaited up to 2 s, prohibitions are final at once. src (file) children are not generated: Fsm::invoke treats both forms alike once the document is loaded.",
   technique="property-based testing: generated parent/child scenario templates + history invariants over the merged mark log"),
 "C15": dict(
   level="exploration",
   text="Topologies of 2-5 router sessions (45 % with an invoked child router, explicit or generated invoke id; 20 % ECMAScript) whose generated command transitions execute one <send> each: all target forms (none, #_internal, #_scxml_<id> literal and by targetexpr incl. own id and children, own _ioprocessors location, #_parent, #_<invokeid> explicit and generated, each literal and as targetexpr), type forms, payload shapes (none, params, namelist, content text/expr) and id forms (none, literal, idlocation); 1-4 host threads issue the commands concurrently. Every session marks each processed event with all fields and replies to _event.origin. Oracle: processed exactly once, by the addressed session, from the addressed queue; name, sendid, data equal; one reply reaches the sender. Second phase: 4-16 threads start 2-8 sessions each simultaneously (spinning barrier per round), each with 3 idlocation sends and 2 id-less invokes: session ids globally distinct, generated ids distinct per session, invoke ids of the form stateid.platformid.",
   design="6/C15",
   note="Only conformant sends are generated (unknown targets etc. belong to C12). 5 s limit for a delivery. Id uniqueness under concurrent starts is a sampled race.",
   technique="property-based testing: generated session topologies and send forms + exactly-once/addressee/field-equality/reply oracle; concurrent-start id uniqueness"),
 "C16": dict(
   level="exploration",
   text="Generated send/cancel programs (1-3 phases x 1-6 steps, phases started by the host 0-210 ms apart) in a sender session, optionally a second sender re-using the first one's send ids, against a receiver session: <send> with delays 10-400 ms in all unit spellings incl. fractions and long delays (1m..1d), via delay / delayexpr literal / delayexpr variable, ids none / unique / shared by two pending sends / idlocation, target other session or own queue, a <param> whose variable is changed after the send; <cancel> by sendid / sendidexpr; optional termination of the sender between phases; rfsm-expression and ECMAScript senders; optional lock jitter. Every send and cancel is bracketed by time-stamped marks; time-robust invariants: never early, never twice, payload from send time, cancelled-in-time never delivered, every other id and the other session's equal id delivered, due-time order, nothing from a terminated sender after its end.",
   design="6/C16",
   note="Timing uncertainty is handled by margins (8 ms cancel, 40 ms termination, 3/40 ms order); sends or cancels that fall inside a margin are not judged (class unjudged_send counts them). Timer/session thread interleavings are sampled, not enumerated.",
   technique="property-based testing: generated send/cancel/terminate programs + time-stamped history invariants (not-early, exactly-once, cancel isolation, due order)"),
 "C17": dict(
   level="exploration",
   text="Scenarios of 2-4 initial plus concurrently started sessions of one executor, driven by 2-6 host threads with 4-31 operations each (start session, cross-session send immediately / delayed, invoke a child of four kinds (inline content, or src=file in 35 % of the scenarios) with optional autoforward, leave the invoking state, send to child, FsmExecutor::send_to_session, cancel) and an optional final FsmExecutor::shutdown racing with sending sessions. The instrumented mutex of the Verif_Hooks feature records per thread which lock classes are requested while which are held, detects wait-for cycles at blocking time (owner/waiter tables), injects seeded jitter and holds threads between generated (held class, requested class) pairs (steering). Oracle: every host thread finishes and every session thread ends after cancel; a recorded wait-for cycle is the proof of a deadlock.",
   design="6/C17",
   note="Search, not proof: schedules are sampled and steered over the four instrumented lock classes (executor state, I/O processor, global data, data values); locks inside the timer crate, std mpsc and tokio are not instrumented. A stall without a recorded cycle is reported as inconclusive (exit 2). Class-level lock-order cycles that never materialise (e.g. a new session's own global data -> processor) are listed in the evidence as candidates, not alarmed.",
   technique="property-based concurrency testing: generated multi-session scenarios + schedule steering/jitter at instrumented locks + wait-for-cycle detection and progress oracle"),
 "C13": dict(
   level="exploration",
   text="Scenarios with 1-8 concurrent producers (host threads through the session sender and through FsmExecutor::send_to_session, a sibling session sending in a foreach, delayed self-sends fired by the timer thread, a child invoked by the receiver sending to #_parent in a foreach) x 1-60 events each, with generated sleeps, a pause inside the receiver's macrostep and optional seeded lock jitter (hook). History invariants on the receiver's mark log: every event processed exactly once, each producer's events in its send order, each event's two internal follow-ups processed before the next external event (no overlap).",
   design="6/C13",
   note="Schedules are sampled from what the OS scheduler, the generated sleeps and the lock jitter produce; 'all interleavings' is not enumerated (the queue is a std mpsc channel). A single observed bad history is itself the counterexample.",
   technique="property-based concurrency testing: generated producer scenarios + history invariants (exactly-once, per-sender order, no overlap)"),

 "C12": dict(
   level="exploration",
   text="Hostile-content profile: conformant structure, C11's expression pool (grammar-derived, mutated, known nasty sources) in every expression position, odd host events (empty / dotted / done.invoke.* / trace.* names, unknown invoke ids, error / source / nested payloads) and 0-3 platform faults per case from 19 kinds (incl. invokes whose namelist / srcexpr / typeexpr / param expr / content expr fails while the invoking state stays active) (unknown session, malformed target, unknown invoke id, #_parent without parent, unsupported type, illegal delays, delay with #_internal, unknown scheme, four kinds of unstartable invokes). Oracle: no panic on the session thread, the final __ping is answered, the session ends on cancel in time, and each send fault's macrostep dequeues the error event the Recommendation assigns.",
   design="6/C12",
   note="Generated machines have no eventless, wildcard or error.* transitions, so a session that does not come back is wedged by the platform and not by its own document. 8 s limit per session (normal ~2 ms), confirmed alone by the engine's watchdog logic for process-level stalls.",
   technique="property-based robustness fuzzing (hostile content + fault injection) with liveness probe (ping) and error-event oracle"),

 "C09": dict(
   level="exploration",
   text="Three generators: (1) host events with generated fields/params/content plus raised, #_internal and error events, every handler marks all _event fields: value read == event as dequeued == event as sent; (2) 17 kinds of attempts to modify _sessionid/_name/_ioprocessors/_event (assign, script '=' / '?=', foreach item/index), each in its own macrostep: error.execution dequeued, rest of block skipped, values unchanged afterwards; (3) statecharts with per-state data under early and late binding whose marks read variables and In() in onentry/onexit/transition bodies at partially updated configurations, against the reference interpreter. rfsm-expression and strict ECMAScript.",
   design="6/C09",
   note="Blank-insensitive comparison of absent fields; In() in the null data model is exercised as transition guards by C02; origintype spelling and the type of done.state events are not asserted.",
   technique="property-based testing: round-trip of event fields, fault (write) injection on system variables, differential testing of binding/In() vs. reference interpreter"),

 "C08": dict(
   level="exploration",
   text="Content profile (nested if/elseif/else, foreach with item/index, assign, raise, log, script, send to #_internal in onentry/onexit/transition/initial/history bodies; rfsm-expression and strict ECMAScript) with an observation mark between all elements and at most one injected failing evaluation per block (17 kinds, incl. failing elements nested in executed branches / loop bodies and a foreach whose item cannot be declared); the observed trace with error events projected out must equal the reference content interpreter's (either continuation of an erroring if-condition accepted) and error.execution must be dequeued exactly in the macrosteps in which the reference raised it.",
   design="6/C08",
   note="No generated transition matches error.* so the number of error events per failure (>= 1) is not constrained. <param> errors (which do not abort the send) and finalize bodies are not injected here.",
   technique="property-based differential testing vs. reference content interpreter with fault (evaluation-error) injection"),

 "C04": dict(
   level="exploration",
   text="Full-grammar documents (every element kind and attribute combination the reader knows, opaque expression texts needing XML escaping) are rendered twice with independent lexical choices (whitespace, comments, quoting, attribute order, character/entity references, CDATA, namespace prefix, start/end tag for empty elements, initial attribute vs <initial>, descriptor spelling, XInclude of text fragments); the by-name dump of the parsed model must equal the dump computed from the AST, both renderings must give equal dumps, parsing must be deterministic and must not panic.",
   design="6/C04",
   note="Trusted: harness/src/dump.rs (model side), astdump.rs (document side), render.rs (a correct XML serialiser). Generated ids are excluded from 'mirrors'.",
   technique="property-based round-trip/differential testing (AST -> text -> model -> dump) + metamorphic relation over lexical renderings"),
 "C05": dict(
   level="exploration",
   text="Write -> read -> raw dump equality on models parsed from full-grammar documents and then mutated through public fields (id bijections anchored at nibble-width boundaries, monotone document ids, delays from the u64 edge set, strings of boundary lengths with multi-byte UTF-8, nested Data values); behavioural equality (identical projected traces of original and reloaded machine on generated events); primitive level round trips incl. an exhaustive sweep of 2^k-1, 2^k, 2^k+1.",
   design="6/C05",
   note="Fields that are not persisted by design are not compared. Behavioural part uses the executable-document generator (<= 14 states).",
   technique="property-based round-trip testing (structural, behavioural, primitive) with boundary-value generators"),
 "C18": dict(
   level="fault_enumeration",
   text="Per generated image, exhaustively: every strict prefix must be rejected by FsmReader::read with Err (no Ok, no panic); the writer against sinks that accept 1, 2, 3, 7 or k bytes per call must still emit the complete image without error flag; the failure of the i-th write call, for every i, and of flush must be visible in has_error().",
   design="6/C18",
   note="Exhaustive over the fault positions of each image; the images themselves are sampled (48 quick / 1500 thorough). Bit-flipped images are out of scope.",
   technique="fault injection enumerated over every cut point / failing call of generated images"),
 "C19": dict(
   level="exploration",
   text="Probe documents with k parallel regions (descriptor list -> hit mark, * -> miss mark) test k descriptor lists per host event; names and descriptors over an alphabet with shared character prefixes, case variants, multi-byte and empty tokens; oracle = reference interpreter's token-prefix matcher (trace equality). Plus the complete product of all descriptors of <= 2 tokens (3 spellings) x all names of <= 3 tokens over a 6-token alphabet.",
   design="6/C19",
   note="Descriptors reach the model through the XML reader (whitespace-separated), names through the host API.",
   technique="property-based differential testing + exhaustive small-alphabet enumeration"),

 "C01": dict(
   level="exploration",
   text="Pure invariant check on the interpreter's own GlobalData.configuration, snapshotted after start-up, after every microstep and at every idle point of generated statecharts (parallel, history, finals, internal/targetless/multi-target transitions, three data models) under generated event sequences: legality per W3C 3.11 plus enter/exit stream invariants (no entry while active, no exit while inactive, exits before entries, stream consistent with snapshots).",
   design="6/C01",
   note="Trusted: recording tracer + snapshots (harness/src/runner.rs) and the legality predicate (checks/c01.rs). One open known finding (re-entry of active ancestors prescribed by the W3C history-ancestor rule, two signatures: the re-entry itself and the illegal configuration it can leave in that very microstep) is matched structurally: document pattern + selected transitions, not by comparing with the reference run.",
   technique="property-based testing of a state invariant over generated documents and event histories"),
 "C02": dict(
   level="exploration",
   text="Differential testing against an independent reference interpreter written from the W3C pseudo-code over my own AST: selected transition set per microstep, exit order, body order, entry order, done events, configuration after every microstep and history values at every idle point must be identical; every case is run twice (fresh parse and session) and must reproduce itself exactly. Second phase: for small documents (<= 7 states) the reference model explores the complete reachable graph over (configuration, history value, data) breadth first (<= 40 states, depth <= 7) and every edge (state x event) is replayed on the real interpreter.",
   design="6/C02",
   note="Trusted: harness/src/refmodel.rs (my reading of appendix D), doc generator only produces conformant documents. Documents <= 14 states, depth <= 4.",
   technique="property-based differential testing vs. reference interpreter + determinism (run-twice) relation + model-based transition tours of small documents"),
 "C03": dict(
   level="exploration",
   text="Differential testing against the reference interpreter on a queue-heavy profile (raise, #_internal send, self-send, guarded eventless transitions, done handlers) with events pre-queued or fed at idle, plus reference-free stream invariants (external events in send order exactly once, idle point exactly before each external dequeue, unmatched event changes nothing) and the metamorphic relation pre-queued == fed-at-idle when no self-send exists.",
   design="6/C03",
   note="Trusted: reference interpreter incl. its model of the external queue; the harness parks the session in its first tracer call so that pre-queuing is deterministic.",
   technique="property-based differential testing + history invariants + metamorphic relation"),
 "C06": dict(
   level="exploration",
   text="History profile (shallow/deep, compound/parallel parents, nested, default content) checked by a reference-free oracle (value recorded from the pre-exit snapshot == value stored by the implementation == value re-entered; default content exactly when nothing was recorded and the parent is entered, positioned after the parent's onentry) and by trace equality with the reference interpreter.",
   design="6/C06",
   note="The reference-free oracle is applied to microsteps with one selected transition targeting one history state; all other steps are covered by the differential comparison only.",
   technique="property-based testing with snapshot-based history oracle + differential testing"),
 "C07": dict(
   level="exploration",
   text="Finals profile (finals at all levels, every parallel region can complete, done handlers, queued events behind the terminating one, cancel) checked by trace equality with the reference interpreter and reference-free invariants: done.state.<parent> after each final entry, done.state.<parallel> iff all regions final, nothing but onexit content after the end, onexit exactly once in exit order, reported final configuration == configuration at shutdown.",
   design="6/C07",
   note="done.invoke to an invoking parent and donedata payloads are not yet covered here (C14 / later extension).",
   technique="property-based differential testing + shutdown/done-event history invariants"),

 "C10": dict(
   level="exploration",
   text="Differential testing of the real parser/evaluator against an independent reference evaluator (precedence climbing over the documented priority table, README value semantics) on generated expression ASTs and data stores, plus a complete enumeration of all operator sequences of length <=2 (quick) / <=3 (thorough) over 14 operator spellings x 12 operand values; metamorphic checks (whitespace, redundant parentheses, compiled vs. cached data-model path). Exploration, not proof: the property quantifies over an infinite language.",
   design="6/C10",
   note="Trusted: the reference evaluator in harness/src/expr.rs (my reading of README.md and of the priority table in parser.rs). Behaviour the README leaves undefined is only checked metamorphically.",
   technique="property-based differential testing vs. reference evaluator + exhaustive small-scope enumeration + metamorphic relations"),
 "C11": dict(
   level="exploration",
   text="Generated, mutated (incl. every prefix), arbitrary-Unicode and aliasing sources are parsed and evaluated through every public entry point on a 2 MiB-stack thread inside watchdogged worker processes: a panic, a reproducible stall, a process abort (stack overflow) or a store that is unusable afterwards is a violation. Nesting/chain-length sweeps up to 2^12 (quick) / 2^18 (thorough).",
   design="6/C11",
   note="Non-termination is decided by a 5 s watchdog (>10^4 x normal case time) reproduced three times alone; memory exhaustion is bounded by RLIMIT_AS in the worker.",
   technique="property-based fuzzing (grammar, mutation, raw Unicode) with crash/hang/poisoning oracle"),
}

def main():
    checks = []
    for pid in ALL:
        if pid not in CLAIMED: continue
        c = CLAIMED[pid]
        checks.append({
            "property_id": pid,
            "quick_cmd": "./check %s --tier quick" % pid,
            "thorough_cmd": "./check %s --tier thorough" % pid,
            "evidence_file": "evidence/%s.json" % pid,
            "replay_cmd_template": "./check %s --replay {path}" % pid,
            "engine": "rfsm_verif",
            "level_claimed": {"category": c["level"], "text": c["text"], "design_ref": "DESIGN.md section " + c["design"]},
            "level_note": c["note"],
            "technique": c["technique"],
        })
    na = [{"property_id": p, "reason": "check not built yet in this session (work in progress; the design is in DESIGN.md section 6)"} for p in ALL if p not in CLAIMED]
    m = {
        "version": 1,
        "setup_cmd": "cd harness && CARGO_NET_OFFLINE=true cargo build --offline",
        "hooks": {
            "guard": "Verif_Hooks",
            "enable": "the harness crate depends on ruFsm with feature Verif_Hooks (harness/Cargo.toml); instrumented mutex rufsm::verif_sync::Mutex: tracking and jitter are off unless a check switches them on",
            "baseline_off_cmd": "cd /repo && cargo test --workspace --no-fail-fast --offline",
            "source_commits": ["01a12b2", "09088ef"],
            "add_only": True,
        },
        "engines": [{"name": "rfsm_verif", "path": "harness/", "serves_properties": sorted(CLAIMED.keys()),
                     "kind_free_text": "own tape-based property-testing engine (PRNG tapes, shrinking, watchdogged worker processes), Rust, links /repo as a path dependency"}],
        "checks": checks,
        "not_applicable": na,
        "notes": "See DESIGN.md. known_findings.json lists genuine defects found (fixed by 'fix:' commits in /repo or open).",
    }
    json.dump(m, open(os.path.join(V, "MANIFEST.json"), "w"), indent=1)
    print("claimed:", sorted(CLAIMED.keys()))

main()
