#!/usr/bin/env python3
"""Regenerates /verif/MANIFEST.json from the table below (claimed checks + not_applicable)."""
import json, os
V = os.path.dirname(os.path.dirname(os.path.abspath(__file__)))
ALL = ["C%02d" % i for i in range(1, 21)]

CLAIMED = {
 "C01": dict(
   level="exploration",
   text="Pure invariant check on the interpreter's own GlobalData.configuration, snapshotted after start-up, after every microstep and at every idle point of generated statecharts (parallel, history, finals, internal/targetless/multi-target transitions, three data models) under generated event sequences: legality per W3C 3.11 plus enter/exit stream invariants (no entry while active, no exit while inactive, exits before entries, stream consistent with snapshots).",
   design="6/C01",
   note="Trusted: recording tracer + snapshots (harness/src/runner.rs) and the legality predicate (checks/c01.rs). One open known finding (re-entry prescribed by the W3C history-ancestor rule) is matched by signature only where the reference interpreter prescribes the same Enter.",
   technique="property-based testing of a state invariant over generated documents and event histories"),
 "C02": dict(
   level="exploration",
   text="Differential testing against an independent reference interpreter written from the W3C pseudo-code over my own AST: selected transition set per microstep, exit order, body order, entry order, done events, configuration after every microstep and history values at every idle point must be identical; every case is run twice (fresh parse and session) and must reproduce itself exactly.",
   design="6/C02",
   note="Trusted: harness/src/refmodel.rs (my reading of appendix D), doc generator only produces conformant documents. Documents <= 14 states, depth <= 4.",
   technique="property-based differential testing vs. reference interpreter + determinism (run-twice) relation"),
 "C03": dict(
   level="exploration",
   text="Differential testing against the reference interpreter on a queue-heavy profile (raise, #_internal send, self-send, guarded eventless transitions, done handlers) with events pre-queued or fed at idle, plus reference-free stream invariants (external events in send order exactly once, idle point exactly before each external dequeue, unmatched event changes nothing) and the metamorphic relation pre-queued == fed-at-idle when no self-send exists.",
   design="6/C03",
   note="Trusted: reference interpreter incl. its model of the external queue; the harness parks the session in its first tracer call so that pre-queuing is deterministic.",
   technique="property-based differential testing + history invariants + metamorphic relation"),
 "C06": dict(
   level="exploration",
   text="History profile (shallow/deep, compound/parallel parents, nested, default content) checked by a reference-free oracle (value recorded from the pre-exit snapshot == value stored by the implementation == value re-entered; default content exactly when nothing was recorded and the parent is entered, positioned after the parent's onentry) and by trace equality with the reference interpreter.",
   design="6/C06",
   note="The reference-free oracle is applied to microsteps with one selected transition targeting one history state; all other steps are covered by the differential comparison only.",
   technique="property-based testing with snapshot-based history oracle + differential testing"),
 "C07": dict(
   level="exploration",
   text="Finals profile (finals at all levels, every parallel region can complete, done handlers, queued events behind the terminating one, cancel) checked by trace equality with the reference interpreter and reference-free invariants: done.state.<parent> after each final entry, done.state.<parallel> iff all regions final, nothing but onexit content after the end, onexit exactly once in exit order, reported final configuration == configuration at shutdown.",
   design="6/C07",
   note="done.invoke to an invoking parent and donedata payloads are not yet covered here (C14 / later extension).",
   technique="property-based differential testing + shutdown/done-event history invariants"),

 "C10": dict(
   level="exploration",
   text="Differential testing of the real parser/evaluator against an independent reference evaluator (precedence climbing over the documented priority table, README value semantics) on generated expression ASTs and data stores, plus a complete enumeration of all operator sequences of length <=2 (quick) / <=3 (thorough) over 14 operator spellings x 12 operand values; metamorphic checks (whitespace, redundant parentheses, compiled vs. cached data-model path). Exploration, not proof: the property quantifies over an infinite language.",
   design="6/C10",
   note="Trusted: the reference evaluator in harness/src/expr.rs (my reading of README.md and of the priority table in parser.rs). Behaviour the README leaves undefined is only checked metamorphically.",
   technique="property-based differential testing vs. reference evaluator + exhaustive small-scope enumeration + metamorphic relations"),
 "C11": dict(
   level="exploration",
   text="Generated, mutated (incl. every prefix), arbitrary-Unicode and aliasing sources are parsed and evaluated through every public entry point on a 2 MiB-stack thread inside watchdogged worker processes: a panic, a reproducible stall, a process abort (stack overflow) or a store that is unusable afterwards is a violation. Nesting/chain-length sweeps up to 2^12 (quick) / 2^18 (thorough).",
   design="6/C11",
   note="Non-termination is decided by a 5 s watchdog (>10^4 x normal case time) reproduced three times alone; memory exhaustion is bounded by RLIMIT_AS in the worker.",
   technique="property-based fuzzing (grammar, mutation, raw Unicode) with crash/hang/poisoning oracle"),
}

def main():
    checks = []
    for pid in ALL:
        if pid not in CLAIMED: continue
        c = CLAIMED[pid]
        checks.append({
            "property_id": pid,
            "quick_cmd": "./check %s --tier quick" % pid,
            "thorough_cmd": "./check %s --tier thorough" % pid,
            "evidence_file": "evidence/%s.json" % pid,
            "replay_cmd_template": "./check %s --replay {path}" % pid,
            "engine": "rfsm_verif",
            "level_claimed": {"category": c["level"], "text": c["text"], "design_ref": "DESIGN.md section " + c["design"]},
            "level_note": c["note"],
            "technique": c["technique"],
        })
    na = [{"property_id": p, "reason": "check not built yet in this session (work in progress; the design is in DESIGN.md section 6)"} for p in ALL if p not in CLAIMED]
    m = {
        "version": 1,
        "setup_cmd": "cd harness && CARGO_NET_OFFLINE=true cargo build --offline",
        "hooks": {
            "guard": "Verif_Hooks",
            "enable": "cargo feature Verif_Hooks of crate ruFsm (not needed by the checks built so far; no hook commit exists yet)",
            "baseline_off_cmd": "cd /repo && cargo test --workspace --no-fail-fast --offline",
            "source_commits": [],
            "add_only": True,
        },
        "engines": [{"name": "rfsm_verif", "path": "harness/", "serves_properties": sorted(CLAIMED.keys()),
                     "kind_free_text": "own tape-based property-testing engine (PRNG tapes, shrinking, watchdogged worker processes), Rust, links /repo as a path dependency"}],
        "checks": checks,
        "not_applicable": na,
        "notes": "See DESIGN.md. known_findings.json lists genuine defects found (fixed by 'fix:' commits in /repo or open).",
    }
    json.dump(m, open(os.path.join(V, "MANIFEST.json"), "w"), indent=1)
    print("claimed:", sorted(CLAIMED.keys()))

main()
