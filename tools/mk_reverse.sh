#!/bin/bash
# usage: tools/mk_reverse.sh <fix commit>...   - writes selftest/mutations/r_<commit>_<subject>.diff
# (the reverse of a "fix:" commit = re-introduction of the defect it repaired)
for c in "$@"; do
  short=$(git -C /repo rev-parse --short=7 "$c")
  subj=$(git -C /repo log -1 --format=%s "$c" | sed 's/[^A-Za-z0-9]/_/g' | cut -c1-60)
  git -C /repo diff "$c" "$c^" > "/verif/selftest/mutations/r_${short}_${subj}.diff"
  echo "r_${short}_${subj}.diff"
done
