#!/bin/bash
# usage: selftest/run.sh <mutation.diff> <check id>...
# Applies a source mutation to /repo's working tree, runs the quick checks, restores the tree.
# Prints one line per check: "<mutation> <check> exit=<code> <seconds>s".
DIR="$(cd "$(dirname "${BASH_SOURCE[0]}")/.." && pwd)"
M="$(realpath "$1")"; shift
if ! git -C /repo diff --quiet; then echo "/repo working tree is dirty; refusing"; exit 2; fi
git -C /repo apply "$M" || { echo "cannot apply $M"; exit 2; }
export VERIF_EVIDENCE_DIR=/verif/work/evidence_scratch
for c in "$@"; do
  t0=$(date +%s)
  "$DIR/check" "$c" --tier quick > "$DIR/work/selftest.$(basename "$M" .diff).$c.out" 2>&1
  code=$?
  t1=$(date +%s)
  echo "$(basename "$M" .diff) $c exit=$code $((t1-t0))s $(grep -c '^VIOLATION' "$DIR/work/selftest.$(basename "$M" .diff).$c.out") violation line(s); first class: $(grep -m1 "^failure class" "$DIR/work/selftest.$(basename "$M" .diff).$c.out" | cut -c1-120)"
done
git -C /repo checkout -- .
