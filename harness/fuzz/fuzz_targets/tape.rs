//! Coverage-guided exploration of the same tape decoders the property checks use:
//! the fuzzer's bytes are the tape of one case of check $VERIF_FUZZ_CHECK (default C11), phase
//! $VERIF_FUZZ_PHASE (default 0). A failing verdict that is not an open known finding panics,
//! so libFuzzer saves the tape; `./check <ID> --replay` does not read raw tapes, use
//! `harness/target/debug/rfsm_verif describe` or put the hex into a replay json.
//! Only for checks that run in-process without sessions on other threads being a problem
//! (C04, C05, C10, C11, C18, C19 and the single-session engine checks).
#![no_main]
use libfuzzer_sys::fuzz_target;
use rfsm_verif::engine::{Check, Verdict};
use std::sync::{Arc, OnceLock};

static CHECK: OnceLock<(Arc<dyn Check>, usize)> = OnceLock::new();

fuzz_target!(|data: &[u8]| {
    let (check, phase) = CHECK.get_or_init(|| {
        let id = std::env::var("VERIF_FUZZ_CHECK").unwrap_or_else(|_| "C11".to_string());
        let phase = std::env::var("VERIF_FUZZ_PHASE").ok().and_then(|p| p.parse().ok()).unwrap_or(0);
        let c = rfsm_verif::checks::by_id(&id).expect("unknown check id");
        c.worker_init();
        (c, phase)
    });
    let r = check.run(*phase, data, false);
    if let Verdict::Fail { sig, detail } = &r.verdict {
        let known = ["entered-while-active/prescribed-by-W3C-history-ancestor-rule", "illegal-configuration/after-W3C-history-ancestor-re-entry"];
        if !known.contains(&sig.as_str()) {
            panic!("VIOLATION property={} signature={} :: {}", check.id(), sig, detail.chars().take(2000).collect::<String>());
        }
    }
});
