//! Generator of rich *executable* content (C08, C09, C12): nested if/elseif/else, foreach,
//! assign, raise, log, script, send -- with an observation mark around everything and at most
//! one injected evaluation error per block.

use crate::doc::*;
use crate::tape::Tape;

/// sources that fail to evaluate in rfsm-expression *and* in ECMAScript
pub const BAD_SOURCES: [&str; 4] = ["nosuchvar + 1", "1 +", "nosuchfn(1)", "nosuchobj.field"];

pub fn is_bad(s: &str) -> bool {
    BAD_SOURCES.contains(&s)
}

#[derive(Clone, Debug, PartialEq)]
pub enum InjectKind {
    IfCond,
    ElseIfCond,
    AssignExpr,
    AssignLocationUndeclared,
    LogExpr,
    Script,
    ForEachArrayError,
    ForEachNotACollection,
    /// `item` is no legal location (ECMAScript: a reserved word); for rfsm-expression the same
    /// name is an ordinary variable and the loop is a valid one
    ForEachIllegalItem,
    SendEventExpr,
    SendTargetExpr,
    SendDelayExpr,
    SendNamelist,
    /// the failing element sits inside a branch / loop body that is executed: the error
    /// aborts that nested block *and* the rest of the enclosing blocks
    NestedThen,
    NestedElse,
    NestedElseIf,
    NestedForEachBody,
}

/// `<foreach item>` that cannot be declared in ECMAScript
pub const ILLEGAL_ITEM: &str = "continue";

pub const INJECT_KINDS: [InjectKind; 17] = [
    InjectKind::IfCond,
    InjectKind::ElseIfCond,
    InjectKind::AssignExpr,
    InjectKind::AssignLocationUndeclared,
    InjectKind::LogExpr,
    InjectKind::Script,
    InjectKind::ForEachArrayError,
    InjectKind::ForEachNotACollection,
    InjectKind::SendEventExpr,
    InjectKind::SendTargetExpr,
    InjectKind::SendDelayExpr,
    InjectKind::NestedThen,
    InjectKind::NestedElse,
    InjectKind::NestedElseIf,
    InjectKind::NestedForEachBody,
    InjectKind::SendNamelist,
    InjectKind::ForEachIllegalItem,
];

pub struct Ctx<'a> {
    pub prefix: &'a str,
    pub n: usize,
    pub injected: Vec<InjectKind>,
    pub max_depth_seen: usize,
    pub has_elseif_or_foreach: bool,
    pub error_not_last: bool,
}

impl<'a> Ctx<'a> {
    pub fn new(prefix: &'a str) -> Ctx<'a> {
        Ctx { prefix, n: 0, injected: vec![], max_depth_seen: 0, has_elseif_or_foreach: false, error_not_last: false }
    }
    fn mark(&mut self, args: Vec<X>) -> C {
        self.n += 1;
        C::Mark { tag: format!("{}.{}", self.prefix, self.n), args }
    }
}

fn bad(t: &mut Tape) -> String {
    BAD_SOURCES[t.below(BAD_SOURCES.len())].to_string()
}

fn int_expr(t: &mut Tape) -> X {
    match t.below(5) {
        0 => X::Int(t.range(0, 9)),
        1 => X::Var("v".into()),
        2 => X::Var("w".into()),
        3 => X::Add(Box::new(X::Var("v".into())), Box::new(X::Int(t.range(1, 3)))),
        _ => X::Add(Box::new(X::Var("w".into())), Box::new(X::Var("v".into()))),
    }
}

fn cond_expr(t: &mut Tape, states: &[String]) -> X {
    match t.below(6) {
        0 => X::Bool(t.bool()),
        1 => X::Lt(Box::new(X::Var("v".into())), Box::new(X::Int(t.range(0, 4)))),
        2 => X::Eq(Box::new(X::Var("w".into())), Box::new(X::Int(t.range(0, 3)))),
        3 if !states.is_empty() => X::In(states[t.below(states.len())].clone()),
        4 if !states.is_empty() => X::Not(Box::new(X::In(states[t.below(states.len())].clone()))),
        _ => X::Lt(Box::new(X::Var("w".into())), Box::new(X::Var("v".into()))),
    }
}

fn valid_send(t: &mut Tape) -> SendSpec {
    let mut s = SendSpec::default();
    if t.bool() {
        s.event = Some(EVENT_NAMES[t.below(EVENT_NAMES.len())].to_string());
    } else {
        s.eventexpr = Some(format!("'{}'", EVENT_NAMES[t.below(EVENT_NAMES.len())]));
    }
    s.target = Some("#_internal".into());
    s
}

/// One block of executable content; `inject` = plant one failing evaluation (position from the tape).
pub fn gen_exec_block(t: &mut Tape, ctx: &mut Ctx, depth: usize, states: &[String], inject: bool) -> Vec<C> {
    ctx.max_depth_seen = ctx.max_depth_seen.max(depth);
    let n = 1 + t.below(if depth == 0 { 4 } else { 3 });
    let inject_at = if inject { Some(t.below(n)) } else { None };
    let mut v: Vec<C> = vec![ctx.mark(vec![X::Var("v".into()), X::Var("w".into())])];
    for i in 0..n {
        let here = inject_at == Some(i);
        let kind = if here { Some(INJECT_KINDS[t.below(INJECT_KINDS.len())].clone()) } else { None };
        if here && i + 1 < n {
            ctx.error_not_last = true;
        }
        let item = gen_item(t, ctx, depth, states, kind);
        v.push(item);
        v.push(ctx.mark(vec![X::Var("v".into()), X::Var("w".into())]));
    }
    v
}

fn guarded(c: C) -> C {
    let inc = C::Assign { var: "cnt".into(), expr: X::Add(Box::new(X::Var("cnt".into())), Box::new(X::Int(1))) };
    C::If { branches: vec![(X::Lt(Box::new(X::Var("cnt".into())), Box::new(X::Int(COUNTER_LIMIT))), vec![inc, c])], els: None }
}

fn gen_item(t: &mut Tape, ctx: &mut Ctx, depth: usize, states: &[String], inject: Option<InjectKind>) -> C {
    if let Some(k) = inject {
        ctx.injected.push(k.clone());
        return match k {
            InjectKind::IfCond => {
                let then = gen_exec_block(t, ctx, depth + 1, states, false);
                let els = if t.bool() { Some(gen_exec_block(t, ctx, depth + 1, states, false)) } else { None };
                C::If { branches: vec![(X::Bad(bad(t)), then)], els }
            }
            InjectKind::ElseIfCond => {
                ctx.has_elseif_or_foreach = true;
                let b1 = gen_exec_block(t, ctx, depth + 1, states, false);
                let b2 = gen_exec_block(t, ctx, depth + 1, states, false);
                let els = if t.bool() { Some(gen_exec_block(t, ctx, depth + 1, states, false)) } else { None };
                // the first condition is false so that the erroring one is reached
                C::If { branches: vec![(X::Bool(false), b1), (X::Bad(bad(t)), b2)], els }
            }
            InjectKind::AssignExpr => C::Assign { var: "v".into(), expr: X::Bad(bad(t)) },
            InjectKind::AssignLocationUndeclared => C::Assign { var: "undeclared_location".into(), expr: X::Int(1) },
            InjectKind::LogExpr => C::Log(X::Bad(bad(t))),
            InjectKind::Script => C::Script(X::Bad(bad(t))),
            InjectKind::ForEachArrayError => {
                ctx.has_elseif_or_foreach = true;
                let body = gen_exec_block(t, ctx, depth + 1, states, false);
                C::ForEach { array: X::Bad(bad(t)), item: "it".into(), index: Some("ix".into()), body }
            }
            InjectKind::ForEachNotACollection => {
                ctx.has_elseif_or_foreach = true;
                let body = gen_exec_block(t, ctx, depth + 1, states, false);
                C::ForEach { array: X::Int(5), item: "it".into(), index: Some("ix".into()), body }
            }
            InjectKind::ForEachIllegalItem => {
                ctx.has_elseif_or_foreach = true;
                let body = gen_exec_block(t, ctx, depth + 1, states, false);
                C::ForEach { array: X::IntArr(vec![4, 2]), item: ILLEGAL_ITEM.into(), index: Some("ix".into()), body }
            }
            InjectKind::SendEventExpr => {
                let mut s = valid_send(t);
                s.event = None;
                s.eventexpr = Some(bad(t));
                C::Send(Box::new(s))
            }
            InjectKind::SendTargetExpr => {
                let mut s = valid_send(t);
                s.target = None;
                s.targetexpr = Some(bad(t));
                C::Send(Box::new(s))
            }
            InjectKind::SendDelayExpr => {
                let mut s = valid_send(t);
                s.target = None;
                s.delayexpr = Some(bad(t));
                C::Send(Box::new(s))
            }
            InjectKind::SendNamelist => {
                let mut s = valid_send(t);
                s.namelist = vec!["nosuchvar".into()];
                C::Send(Box::new(s))
            }
            InjectKind::NestedThen | InjectKind::NestedElse | InjectKind::NestedElseIf | InjectKind::NestedForEachBody if depth >= 3 => C::Log(X::Bad(bad(t))),
            InjectKind::NestedThen => {
                let then = gen_exec_block(t, ctx, depth + 1, states, true);
                let els = if t.bool() { Some(gen_exec_block(t, ctx, depth + 1, states, false)) } else { None };
                C::If { branches: vec![(X::Bool(true), then)], els }
            }
            InjectKind::NestedElse => {
                let then = gen_exec_block(t, ctx, depth + 1, states, false);
                let els = gen_exec_block(t, ctx, depth + 1, states, true);
                C::If { branches: vec![(X::Bool(false), then)], els: Some(els) }
            }
            InjectKind::NestedElseIf => {
                ctx.has_elseif_or_foreach = true;
                let b1 = gen_exec_block(t, ctx, depth + 1, states, false);
                let b2 = gen_exec_block(t, ctx, depth + 1, states, true);
                let els = if t.bool() { Some(gen_exec_block(t, ctx, depth + 1, states, false)) } else { None };
                C::If { branches: vec![(X::Bool(false), b1), (X::Bool(true), b2)], els }
            }
            InjectKind::NestedForEachBody => {
                ctx.has_elseif_or_foreach = true;
                ctx.n += 1;
                let tag = format!("{}.{}", ctx.prefix, ctx.n);
                let mut body = vec![C::Mark { tag, args: vec![X::Var("it".into()), X::Var("ix".into())] }];
                body.extend(gen_exec_block(t, ctx, depth + 1, states, true));
                C::ForEach { array: X::IntArr(vec![3, 1, 2]), item: "it".into(), index: Some("ix".into()), body }
            }
        };
    }
    let deep = depth >= 3;
    match t.weighted(&[18, if deep { 0 } else { 22 }, if deep { 0 } else { 14 }, 10, 8, 8, 6]) {
        0 => C::Assign { var: (*t.pick(&["v", "w"])).to_string(), expr: int_expr(t) },
        1 => {
            let nb = 1 + t.below(3);
            if nb > 1 {
                ctx.has_elseif_or_foreach = true;
            }
            let mut branches = Vec::new();
            for _ in 0..nb {
                let c = cond_expr(t, states);
                let b = gen_exec_block(t, ctx, depth + 1, states, false);
                branches.push((c, b));
            }
            let els = if t.bool() { Some(gen_exec_block(t, ctx, depth + 1, states, false)) } else { None };
            C::If { branches, els }
        }
        2 => {
            ctx.has_elseif_or_foreach = true;
            let n = t.below(4);
            let arr: Vec<i64> = (0..n).map(|_| t.range(0, 9)).collect();
            ctx.n += 1;
            let tag = format!("{}.{}", ctx.prefix, ctx.n);
            let mut body = vec![C::Mark { tag, args: vec![X::Var("it".into()), X::Var("ix".into())] }];
            if t.chance(40) {
                body.push(C::Assign { var: "w".into(), expr: X::Add(Box::new(X::Var("w".into())), Box::new(X::Var("it".into()))) });
            }
            if t.chance(25) {
                body.extend(gen_exec_block(t, ctx, depth + 1, states, false));
            }
            C::ForEach { array: X::IntArr(arr), item: "it".into(), index: Some("ix".into()), body }
        }
        // event producers are bounded by the global counter (no endless raise/handle chains)
        3 => guarded(C::Raise(EVENT_NAMES[t.below(EVENT_NAMES.len())].to_string())),
        4 => guarded(C::Send(Box::new(valid_send(t)))),
        5 => C::Log(int_expr(t)),
        _ => C::Log(X::Str("text".into())),
    }
}
