//! Common part of the single-session checks (C01, C02, C03, C06, C07, ...): decode a case,
//! run the reference model and the real interpreter, compare.

use crate::doc::*;
use crate::engine::{hash_str, CaseResult};
use crate::refmodel::{Interp, Mode, Model, Rec, Stats};
use crate::render::render_doc;
use crate::runner::{diff_traces, parse, run_session, RunResult};
use crate::tape::Tape;
use serde_json::{json, Value};
use std::time::Duration;

pub struct Case {
    pub doc: Doc,
    pub events: Vec<String>,
    pub mode: Mode,
    pub xml: String,
}

pub fn decode(tape: &[u8], p: &Profile, force_mode: Option<Mode>) -> Case {
    let mut t = Tape::new(tape);
    let doc = gen_doc(&mut t, p);
    let events = gen_events(&mut t, p, &doc);
    let mode = force_mode.unwrap_or(if t.bool() { Mode::FedAtIdle } else { Mode::PreQueued });
    let xml = render_doc(&doc);
    Case { doc, events, mode, xml }
}

pub struct RefRun {
    pub trace: Vec<Rec>,
    pub stats: Stats,
    pub final_cfg: Vec<String>,
    pub completed: bool,
}

pub fn reference_run(doc: &Doc, events: &[String], mode: Mode) -> RefRun {
    let m = Model::build(doc);
    let mut it = Interp::new(&m);
    let completed = it.run(events, mode);
    RefRun { trace: it.trace.clone(), stats: it.stats.clone(), final_cfg: it.final_cfg.clone(), completed }
}

pub fn real_run(xml: &str, events: &[String], mode: Mode) -> Result<RunResult, String> {
    let fsm = parse(xml)?;
    Ok(run_session(fsm, events, mode, Duration::from_secs(8)))
}

pub fn sample_json(c: &Case, reference: &[Rec], real: Option<&[Rec]>) -> Value {
    let show = |t: &[Rec]| t.iter().take(60).map(|r| format!("{:?}", r)).collect::<Vec<_>>();
    json!({
        "scxml": c.xml,
        "events": c.events,
        "mode": format!("{:?}", c.mode),
        "reference_trace_head": show(reference),
        "real_trace_head": real.map(show),
    })
}

/// Shape statistics of a document for class histograms.
pub fn doc_classes(doc: &Doc) -> Vec<String> {
    let flat = flatten(doc);
    let mut v = vec![format!("dm_{}", doc.dm.name())];
    if flat.iter().any(|f| matches!(f.kind, Kind::Parallel)) {
        v.push("with_parallel".into());
    }
    if flat.iter().any(|f| matches!(f.kind, Kind::History { .. })) {
        v.push("with_history".into());
    }
    if flat.iter().any(|f| matches!(f.kind, Kind::Final)) {
        v.push("with_final".into());
    }
    let mut multi = false;
    let mut internal = false;
    let mut targetless = false;
    for_each_state(doc, &mut |s| {
        for t in &s.transitions {
            if t.targets.len() > 1 {
                multi = true;
            }
            if t.internal && !t.targets.is_empty() {
                internal = true;
            }
            if t.targets.is_empty() {
                targetless = true;
            }
        }
    });
    if multi {
        v.push("with_multi_target".into());
    }
    if internal {
        v.push("with_internal_transition".into());
    }
    if targetless {
        v.push("with_targetless".into());
    }
    v
}

/// Trace comparison shared by the differential checks. `project` may drop record kinds.
pub fn compare_case(c: &Case, want_sample: bool, nontrivial: &dyn Fn(&Stats, &Doc) -> bool, extra: &dyn Fn(&Case, &RefRun, &RunResult) -> Result<(), (String, String)>) -> CaseResult {
    let hash = hash_str(&format!("{}|{:?}|{:?}", c.xml, c.events, c.mode));
    let rr = reference_run(&c.doc, &c.events, c.mode);
    if !rr.completed {
        return CaseResult::discard("reference model exceeds 200 microsteps in a macrostep");
    }
    let real = match real_run(&c.xml, &c.events, c.mode) {
        Ok(r) => r,
        Err(e) => {
            return CaseResult::fail(hash, "reader-rejects-conformant-document", format!("{}\n{}", e, c.xml)).with_sample(sample_json(c, &rr.trace, None));
        }
    };
    if real.timed_out {
        return CaseResult::error(format!("session did not end within the time limit\n{}", c.xml));
    }
    if let Some(p) = &real.panicked {
        return CaseResult::fail(hash, "session-thread-panicked", format!("{}\n{}\nevents {:?}", p, c.xml, c.events)).with_sample(sample_json(c, &rr.trace, Some(&real.trace)));
    }
    if let Some(v) = real.tracer_violations.first() {
        return CaseResult::fail(hash, "global-data-unreadable", v.clone());
    }
    if let Some(d) = diff_traces(&rr.trace, &real.trace) {
        let sig = classify_diff(&rr.trace, &real.trace);
        return CaseResult::fail(hash, &sig, format!("{}events {:?} mode {:?}\n{}", d, c.events, c.mode, c.xml)).with_sample(sample_json(c, &rr.trace, Some(&real.trace)));
    }
    if let Some(fc) = &real.final_cfg {
        if *fc != rr.final_cfg {
            // sorted comparison: final_configuration is reported in configuration (entry) order
            let mut a = fc.clone();
            let mut b = rr.final_cfg.clone();
            a.sort();
            b.sort();
            if a != b {
                return CaseResult::fail(hash, "final-configuration", format!("reported {:?}, expected {:?}\n{}", fc, rr.final_cfg, c.xml));
            }
        }
    }
    if let Err((sig, d)) = extra(c, &rr, &real) {
        return CaseResult::fail(hash, &sig, d).with_sample(sample_json(c, &rr.trace, Some(&real.trace)));
    }
    let mut r = CaseResult::pass(hash, nontrivial(&rr.stats, &c.doc));
    r.classes = doc_classes(&c.doc);
    r.classes.push(format!("mode_{:?}", c.mode));
    if rr.stats.preemption {
        r.classes.push("preemption".into());
    }
    if rr.stats.max_selected >= 2 {
        r.classes.push("multi_transition_microstep".into());
    }
    if rr.stats.history_reentry_nondefault {
        r.classes.push("history_reentry_nondefault".into());
    }
    if rr.stats.history_default_used {
        r.classes.push("history_default_used".into());
    }
    if rr.stats.parallel_done {
        r.classes.push("parallel_done".into());
    }
    if rr.stats.reached_top_final {
        r.classes.push("top_final_reached".into());
    }
    if rr.stats.internal_while_external_waiting {
        r.classes.push("internal_event_while_external_waiting".into());
    }
    if want_sample {
        r.sample = Some(sample_json(c, &rr.trace, Some(&real.trace)));
    }
    r
}

/// Root-cause key of a trace difference: the kinds of the first differing records.
pub fn classify_diff(expected: &[Rec], got: &[Rec]) -> String {
    use crate::runner::rec_kind;
    for i in 0..expected.len().max(got.len()) {
        let e = expected.get(i);
        let g = got.get(i);
        if e != g {
            return format!("trace:{}-vs-{}", e.map(rec_kind).unwrap_or("end"), g.map(rec_kind).unwrap_or("end"));
        }
    }
    "trace:none".into()
}
