//! Full-grammar document generator for the reader / serializer checks (C04, C05, C18): all
//! element kinds and attribute combinations the reader knows.  The documents are parsed and
//! serialised, not executed, so expressions are opaque text (with characters that need XML
//! escaping, quotes, non-ASCII).

use crate::astdump::DELAYS;
use crate::doc::*;
use crate::tape::Tape;

pub const RAW_EXPR: [&str; 16] = [
    "x", "a < b", "a && b", "a & b | c", "x > 1", "'s'", "\"d\"", "it's", "v + 1", "\u{e9}t\u{e9}", "\u{65e5}\u{672c} == 1", "<tag>", "a &amp; b", "f(1, 'two')", "[1,2,3]", "{'k':'v'}",
];
pub const RAW_TEXT: [&str; 10] = ["x = 1", "a < b", "a && b", "'s' + \"d\"", "\u{e9} \u{fc}", "mark('a')", "line1\nline2", "  padded  ", "a]b>c", "{ \"k\": [1, 2] }"];
pub const LOCATIONS: [&str; 5] = ["v", "cnt", "obj.field", "arr[0]", "Var1"];
pub const IDS: [&str; 5] = ["id1", "send.a", "x_y", "i\u{e9}", "ID"];

fn raw(t: &mut Tape) -> String {
    RAW_EXPR[t.below(RAW_EXPR.len())].to_string()
}

fn opt(t: &mut Tape, pct: u32, f: impl FnOnce(&mut Tape) -> String) -> Option<String> {
    if t.chance(pct) {
        Some(f(t))
    } else {
        None
    }
}

fn gen_params(t: &mut Tape) -> Vec<ParamSpec> {
    let n = if t.chance(50) { 0 } else { 1 + t.below(3) };
    (0..n)
        .map(|i| {
            if t.bool() {
                ParamSpec { name: format!("p{}", i), expr: Some(raw(t)), location: None }
            } else {
                ParamSpec { name: format!("p{}", i), expr: None, location: Some(LOCATIONS[t.below(LOCATIONS.len())].to_string()) }
            }
        })
        .collect()
}

fn gen_content_spec(t: &mut Tape) -> ContentSpec {
    if t.bool() {
        ContentSpec::Expr(raw(t))
    } else {
        ContentSpec::Text(RAW_TEXT[t.below(RAW_TEXT.len())].to_string())
    }
}

pub fn gen_send(t: &mut Tape) -> SendSpec {
    let mut s = SendSpec::default();
    match t.below(3) {
        0 => s.event = Some(EVENT_NAMES[t.below(EVENT_NAMES.len())].to_string()),
        1 => s.eventexpr = Some(raw(t)),
        _ => {}
    }
    match t.below(4) {
        0 => s.target = Some((*t.pick(&["#_internal", "#_parent", "#_scxml_7", "#_inv1", "http://example.org/x?a=1&b=2"])).to_string()),
        1 => s.targetexpr = Some(raw(t)),
        _ => {}
    }
    match t.below(5) {
        0 => s.typ = Some((*t.pick(&["scxml", "http://www.w3.org/TR/scxml/#SCXMLEventProcessor", "http://www.w3.org/TR/scxml/#BasicHTTPEventProcessor"])).to_string()),
        1 => s.typeexpr = Some(raw(t)),
        _ => {}
    }
    match t.below(4) {
        0 => s.id = Some(IDS[t.below(IDS.len())].to_string()),
        1 => s.idlocation = Some(LOCATIONS[t.below(LOCATIONS.len())].to_string()),
        _ => {}
    }
    match t.below(4) {
        0 => s.delay = Some(DELAYS[t.below(DELAYS.len())].0.to_string()),
        1 => s.delayexpr = Some(raw(t)),
        _ => {}
    }
    if t.chance(35) {
        s.content = Some(gen_content_spec(t));
    } else {
        if t.chance(30) {
            let n = 1 + t.below(3);
            s.namelist = (0..n).map(|_| LOCATIONS[t.below(LOCATIONS.len())].to_string()).collect();
        }
        s.params = gen_params(t);
    }
    s
}

pub fn gen_rich_block(t: &mut Tape, depth: usize, in_finalize: bool) -> Vec<C> {
    let n = t.below(if depth == 0 { 4 } else { 3 });
    let mut v = Vec::new();
    for _ in 0..n {
        v.push(gen_rich_item(t, depth, in_finalize));
    }
    v
}

fn gen_rich_item(t: &mut Tape, depth: usize, in_finalize: bool) -> C {
    let k = t.weighted(&[12, 10, 14, 10, 10, 10, 8, 8, 6, 6]);
    match k {
        0 if !in_finalize => C::Raise(EVENT_NAMES[t.below(EVENT_NAMES.len())].to_string()),
        1 if !in_finalize => C::Send(Box::new(gen_send(t))),
        2 if depth < 3 => {
            let nb = 1 + t.below(3);
            let branches = (0..nb).map(|_| (X::Raw(raw(t)), gen_rich_block(t, depth + 1, in_finalize))).collect();
            let els = if t.bool() { Some(gen_rich_block(t, depth + 1, in_finalize)) } else { None };
            C::If { branches, els }
        }
        3 if depth < 3 => C::ForEach { array: X::Raw(raw(t)), item: "it".into(), index: if t.bool() { Some("ix".into()) } else { None }, body: gen_rich_block(t, depth + 1, in_finalize) },
        4 => C::Assign { var: LOCATIONS[t.below(LOCATIONS.len())].to_string(), expr: X::Raw(raw(t)) },
        5 => C::AssignText { location: LOCATIONS[t.below(LOCATIONS.len())].to_string(), text: RAW_TEXT[t.below(RAW_TEXT.len())].to_string() },
        6 => {
            if t.bool() {
                C::Log(X::Raw(raw(t)))
            } else {
                C::LogLabel { label: (*t.pick(&["L", "a label", "l\u{e9}"])).to_string(), expr: X::Raw(raw(t)) }
            }
        }
        7 => C::Script(X::Raw(RAW_TEXT[t.below(RAW_TEXT.len())].trim().to_string())),
        8 if !in_finalize => {
            if t.bool() {
                C::Cancel { sendid: Some(IDS[t.below(IDS.len())].to_string()), sendidexpr: None }
            } else {
                C::Cancel { sendid: None, sendidexpr: Some(raw(t)) }
            }
        }
        _ => C::Log(X::Raw(raw(t))),
    }
}

fn gen_invoke(t: &mut Tape, k: usize) -> InvokeSpec {
    let mut i = InvokeSpec::default();
    match t.below(3) {
        0 => i.typ = Some((*t.pick(&["scxml", "http://www.w3.org/TR/scxml"])).to_string()),
        1 => i.typeexpr = Some(raw(t)),
        _ => {}
    }
    match t.below(3) {
        0 => i.src = Some((*t.pick(&["child.scxml", "file:sub/child.scxml", "http://example.org/c.scxml?x=1&y=2"])).to_string()),
        1 => i.srcexpr = Some(raw(t)),
        _ => i.content = Some(gen_content_spec(t)),
    }
    match t.below(3) {
        0 => i.id = Some(format!("inv{}", k)),
        1 => i.idlocation = Some(LOCATIONS[t.below(LOCATIONS.len())].to_string()),
        _ => {}
    }
    if t.chance(30) {
        let n = 1 + t.below(2);
        i.namelist = (0..n).map(|_| LOCATIONS[t.below(LOCATIONS.len())].to_string()).collect();
    }
    if t.chance(40) {
        i.autoforward = Some(t.bool());
    }
    i.params = gen_params(t);
    if t.chance(40) {
        i.finalize = Some(gen_rich_block(t, 1, true));
    }
    i
}

/// Decorates a structure document with all the element kinds the reader knows.
pub fn enrich(doc: &mut Doc, t: &mut Tape) -> Option<String> {
    doc.name = (*t.pick(&["gen", "Machine 1", "m\u{e9}", "a&b"])).to_string();
    if t.chance(50) {
        doc.data.push(DataDecl { id: "Var1".into(), expr: Some(X::Raw(raw(t))) });
    }
    if t.chance(30) {
        doc.data.push(DataDecl { id: "txt".into(), expr: Some(X::Raw(format!("TEXT:{}", RAW_TEXT[t.below(RAW_TEXT.len())]))) });
    }
    if t.chance(20) {
        doc.data.push(DataDecl { id: "empty".into(), expr: None });
    }
    let mut k = 0usize;
    fn walk(s: &mut State, t: &mut Tape, k: &mut usize) {
        *k += 1;
        if !s.is_history() {
            let may_have_data = matches!(s.kind, Kind::State | Kind::Parallel);
            if may_have_data && t.chance(25) {
                s.data.push(DataDecl { id: format!("d{}", *k), expr: Some(X::Raw(raw(t))) });
            }
            if may_have_data && t.chance(10) {
                s.data.push(DataDecl { id: format!("t{}", *k), expr: Some(X::Raw(format!("TEXT:{}", RAW_TEXT[t.below(RAW_TEXT.len())]))) });
            }
            if t.chance(45) {
                let b = gen_rich_block(t, 0, false);
                s.onentry.push(b);
            }
            if t.chance(35) {
                let b = gen_rich_block(t, 0, false);
                s.onexit.push(b);
            }
        }
        for tr in s.transitions.iter_mut() {
            if t.chance(45) {
                tr.content.extend(gen_rich_block(t, 0, false));
            }
            if t.chance(15) {
                tr.cond = Some(X::Raw(raw(t)));
            }
        }
        if let Initial::Elem(_, c) = &mut s.initial {
            if t.chance(50) {
                c.extend(gen_rich_block(t, 1, false));
            }
        }
        match s.kind {
            Kind::State | Kind::Parallel => {
                if t.chance(25) {
                    let n = 1 + t.below(2);
                    for j in 0..n {
                        s.invokes.push(gen_invoke(t, *k * 10 + j));
                    }
                }
            }
            Kind::Final => {
                if t.chance(50) {
                    let params = if t.bool() { (0..1 + t.below(2)).map(|i| (format!("dp{}", i), X::Raw(raw(t)))).collect() } else { vec![] };
                    let content = if params.is_empty() {
                        Some(if t.bool() { X::Raw(raw(t)) } else { X::Raw(format!("TEXT:{}", RAW_TEXT[t.below(RAW_TEXT.len())])) })
                    } else {
                        None
                    };
                    s.donedata = Some(DoneData { params, content });
                }
            }
            _ => {}
        }
        for c in s.children.iter_mut() {
            walk(c, t, k);
        }
    }
    for s in doc.states.iter_mut() {
        walk(s, t, &mut k);
    }
    if t.chance(35) {
        Some(RAW_TEXT[t.below(RAW_TEXT.len())].to_string())
    } else {
        None
    }
}
