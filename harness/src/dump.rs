//! Canonical textual dump of a parsed model (`rufsm::fsm::Fsm`).  DESIGN.md §2.5.
//! Two flavours: *by name* (ids erased, comparable with the dump computed from the document
//! AST and between two parses) and *raw* (ids kept, for the binary round trip).

use rufsm::datamodel::{Data, DataArc};
use rufsm::executable_content::*;
use rufsm::fsm::*;
use std::collections::BTreeMap;
use std::fmt::Write;

#[derive(Clone, Copy, PartialEq)]
pub enum Flavour {
    ByName,
    Raw,
}

pub fn data_text(d: &Data, raw: bool) -> String {
    match d {
        Data::Source(s) => {
            if raw {
                format!("src#{}<{}>", s.source_id, s.source)
            } else {
                format!("src<{}>", s.source)
            }
        }
        Data::None() => "none".into(),
        Data::Null() => "null".into(),
        Data::Integer(i) => format!("int<{}>", i),
        Data::Double(f) => format!("dbl<{:?}>", f),
        Data::String(s) => format!("str<{}>", s),
        Data::Boolean(b) => format!("bool<{}>", b),
        Data::Error(e) => format!("err<{}>", e),
        Data::Array(a) => format!("arr[{}]", a.iter().map(|x| arc_text(x, raw)).collect::<Vec<_>>().join(",")),
        Data::Map(m) => {
            let b: BTreeMap<&String, &DataArc> = m.iter().collect();
            format!("map{{{}}}", b.iter().map(|(k, v)| format!("{}:{}", k, arc_text(v, raw))).collect::<Vec<_>>().join(","))
        }
    }
}

pub fn arc_text(a: &DataArc, raw: bool) -> String {
    match a.arc.try_lock() {
        Ok(g) => data_text(&g, raw),
        Err(_) => "<locked>".into(),
    }
}

struct D<'a> {
    fsm: &'a Fsm,
    raw: bool,
    out: String,
}

impl<'a> D<'a> {
    fn name(&self, id: StateId) -> String {
        if id == 0 {
            return "-".into();
        }
        match self.fsm.states.get((id - 1) as usize) {
            Some(s) => {
                if self.raw {
                    format!("{}#{}", s.name, id)
                } else if id == self.fsm.pseudo_root {
                    "<scxml>".into()
                } else {
                    s.name.clone()
                }
            }
            None => format!("?{}", id),
        }
    }
    fn line(&mut self, ind: usize, s: &str) {
        for _ in 0..ind {
            self.out.push_str("  ");
        }
        self.out.push_str(&s.replace('\n', "\\n").replace('\r', "\\r"));
        self.out.push('\n');
    }
    fn common(&self, c: &Option<CommonContent>) -> String {
        match c {
            None => "-".into(),
            Some(c) => format!("content<{:?}> expr<{:?}>", c.content, c.content_expr),
        }
    }
    fn params(&self, p: &Option<Vec<Parameter>>) -> String {
        match p {
            None => "-".into(),
            Some(v) => v.iter().map(|p| format!("({}|{}|{})", p.name, p.expr, p.location)).collect::<Vec<_>>().join(""),
        }
    }
    fn content(&mut self, ind: usize, label: &str, id: ExecutableContentId) {
        if id == 0 {
            self.line(ind, &format!("{}: none", label));
            return;
        }
        let Some(v) = self.fsm.executableContent.get(&id) else {
            self.line(ind, &format!("{}: <dangling #{}>", label, id));
            return;
        };
        if self.raw {
            self.line(ind, &format!("{} #{}:", label, id));
        } else if v.is_empty() {
            // an empty block is the same as no block
            self.line(ind, &format!("{}: none", label));
            return;
        } else {
            self.line(ind, &format!("{}:", label));
        }
        for ec in v.iter() {
            self.ec(ind + 1, ec.as_ref());
        }
    }
    fn ec(&mut self, ind: usize, ec: &dyn ExecutableContent) {
        let raw = self.raw;
        let any = ec.as_any();
        if let Some(x) = any.downcast_ref::<If>() {
            self.line(ind, &format!("if cond={}", data_text(&x.condition, raw)));
            self.content(ind + 1, "then", x.content);
            self.content(ind + 1, "else", x.else_content);
        } else if let Some(x) = any.downcast_ref::<ForEach>() {
            self.line(ind, &format!("foreach array={} item=<{}> index=<{}>", data_text(&x.array, raw), x.item, x.index));
            self.content(ind + 1, "body", x.content);
        } else if let Some(x) = any.downcast_ref::<Assign>() {
            self.line(ind, &format!("assign location={} expr={}", data_text(&x.location, raw), data_text(&x.expr, raw)));
        } else if let Some(x) = any.downcast_ref::<Raise>() {
            self.line(ind, &format!("raise event=<{}>", x.event));
        } else if let Some(x) = any.downcast_ref::<Log>() {
            self.line(ind, &format!("log label=<{}> expr={}", x.label, data_text(&x.expression, raw)));
        } else if let Some(x) = any.downcast_ref::<Expression>() {
            self.line(ind, &format!("script {}", data_text(&x.content, raw)));
        } else if let Some(x) = any.downcast_ref::<Script>() {
            self.line(ind, &format!("scriptlist {:?}", x.content));
        } else if let Some(x) = any.downcast_ref::<Cancel>() {
            self.line(ind, &format!("cancel sendid=<{}> sendidexpr={}", x.send_id, data_text(&x.send_id_expr, raw)));
        } else if let Some(x) = any.downcast_ref::<SendParameters>() {
            let ps = if raw { String::new() } else { String::new() };
            let _ = ps;
            self.line(
                ind,
                &format!(
                    "send id=<{}> idlocation=<{}> event={} eventexpr={} target={} targetexpr={} type={} typeexpr={} delay_ms={} delayexpr={} namelist={:?} params={} {}",
                    x.name,
                    x.name_location,
                    data_text(&x.event, raw),
                    data_text(&x.event_expr, raw),
                    data_text(&x.target, raw),
                    data_text(&x.target_expr, raw),
                    data_text(&x.type_value, raw),
                    data_text(&x.type_expr, raw),
                    x.delay_ms,
                    data_text(&x.delay_expr, raw),
                    x.name_list,
                    self.params(&x.params),
                    self.common(&x.content)
                ),
            );
        } else {
            self.line(ind, &format!("<unknown executable content type {}>", ec.get_type()));
        }
    }
    fn transition(&mut self, ind: usize, label: &str, tid: TransitionId, initial: bool) {
        let Some(t) = self.fsm.transitions.get(&tid) else {
            self.line(ind, &format!("{}: <dangling transition #{}>", label, tid));
            return;
        };
        let targets: Vec<String> = t.target.iter().map(|x| self.name(*x)).collect();
        let mut s = String::new();
        if self.raw {
            let _ = write!(s, "{} #{} doc={} source={} ", label, t.id, t.doc_id, self.name(t.source));
        } else {
            let _ = write!(s, "{} ", label);
        }
        if initial && !self.raw {
            // the type of an initial transition has no meaning
            let _ = write!(s, "targets={:?}", targets);
        } else {
            // an empty condition is no condition (the writer does not persist it, conditionMatch() treats both alike)
            let cond = if t.cond.is_empty() { "null".to_string() } else { data_text(&t.cond, self.raw) };
            let _ = write!(s, "events={:?} wildcard={} cond={} targets={:?} type={}", t.events, t.wildcard, cond, targets, t.transition_type);
        }
        self.line(ind, &s);
        self.content(ind + 1, "content", t.content);
    }
    fn state(&mut self, s: &State) {
        let kind = if s.is_final {
            "final".to_string()
        } else if s.is_parallel {
            "parallel".to_string()
        } else {
            match s.history_type {
                HistoryType::Deep => "history(deep)".to_string(),
                HistoryType::Shallow => "history(shallow)".to_string(),
                HistoryType::None => "state".to_string(),
            }
        };
        let children: Vec<String> = s.states.iter().map(|c| self.name(*c)).collect();
        let hist: Vec<String> = s.history.iterator().map(|c| self.name(*c)).collect();
        if self.raw {
            self.line(0, &format!("state {} doc={} kind={} parent={} children={:?} history={:?}", self.name(s.id), s.doc_id, kind, self.name(s.parent), children, hist));
        } else {
            self.line(0, &format!("state {} kind={} parent={} children={:?} history={:?}", self.name(s.id), kind, self.name(s.parent), children, hist));
        }
        if s.initial != 0 {
            self.transition(1, "initial", s.initial, true);
        }
        let data: BTreeMap<&String, &DataArc> = s.data.iter().collect();
        for (k, v) in data {
            self.line(1, &format!("data {}={}", k, arc_text(v, self.raw)));
        }
        for (i, c) in s.onentry.iter().enumerate() {
            self.content(1, &format!("onentry[{}]", i), *c);
        }
        for (i, c) in s.onexit.iter().enumerate() {
            self.content(1, &format!("onexit[{}]", i), *c);
        }
        for (i, t) in s.transitions.iterator().enumerate() {
            self.transition(1, &format!("transition[{}]", i), *t, false);
        }
        for inv in s.invoke.iterator() {
            let raw = self.raw;
            let mut l = format!(
                "invoke id=<{}> idlocation=<{}> type={} typeexpr={} src={} srcexpr={} autoforward={} namelist={:?} params={} {}",
                inv.invoke_id,
                inv.external_id_location,
                data_text(&inv.type_name, raw),
                data_text(&inv.type_expr, raw),
                data_text(&inv.src, raw),
                data_text(&inv.src_expr, raw),
                inv.autoforward,
                inv.name_list,
                self.params(&inv.params),
                self.common(&inv.content)
            );
            if raw {
                let _ = write!(l, " doc={}", inv.doc_id);
            }
            self.line(1, &l);
            self.content(2, "finalize", inv.finalize);
        }
        if let Some(dd) = &s.donedata {
            let l = format!("donedata params={} {}", self.params(&dd.params), self.common(&dd.content));
            self.line(1, &l);
        }
    }
}

pub fn dump(fsm: &Fsm, flavour: Flavour) -> String {
    let mut d = D { fsm, raw: flavour == Flavour::Raw, out: String::new() };
    let binding = match fsm.binding {
        BindingType::Early => "early",
        BindingType::Late => "late",
    };
    d.line(0, &format!("fsm name=<{}> datamodel=<{}> binding={} root={}", fsm.name, fsm.datamodel.to_lowercase(), binding, d.name(fsm.pseudo_root)));
    d.content(0, "script", fsm.script);
    // states in document order
    let mut order: Vec<&State> = fsm.states.iter().collect();
    order.sort_by_key(|s| (s.doc_id, s.id));
    for s in order {
        d.state(s);
    }
    if d.raw {
        // tables that have no place in the tree view
        let mut tids: Vec<&TransitionId> = fsm.transitions.keys().collect();
        tids.sort();
        d.line(0, &format!("transition-table {:?}", tids));
        let mut cids: Vec<&ExecutableContentId> = fsm.executableContent.keys().collect();
        cids.sort();
        d.line(0, &format!("content-table {:?}", cids));
    }
    d.out
}
