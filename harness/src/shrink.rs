//! Generic tape shrinker, budgeted by evaluations (never by wall clock).
//!
//! `still_fails(tape)` must return true iff the candidate fails with the *same classification*
//! as the original failure, so that shrinking cannot slide from one root cause to another.

pub fn shrink(orig: &[u8], budget: usize, mut still_fails: impl FnMut(&[u8]) -> bool) -> (Vec<u8>, usize) {
    let mut cur: Vec<u8> = orig.to_vec();
    let mut evals = 0usize;
    // drop trailing zeros: semantically identical (reads past the end yield 0)
    while cur.last() == Some(&0) {
        cur.pop();
    }
    let mut try_cand = |cand: Vec<u8>, cur: &mut Vec<u8>, evals: &mut usize| -> bool {
        if *evals >= budget || cand == *cur {
            return false;
        }
        *evals += 1;
        if still_fails(&cand) {
            *cur = cand;
            while cur.last() == Some(&0) {
                cur.pop();
            }
            true
        } else {
            false
        }
    };

    let mut progress = true;
    while progress && evals < budget {
        progress = false;
        // 1. truncate
        let mut keep = cur.len() / 2;
        while keep < cur.len() && evals < budget {
            let cand = cur[..keep].to_vec();
            if try_cand(cand, &mut cur, &mut evals) {
                progress = true;
                keep = cur.len() / 2;
            } else {
                let rem = cur.len() - keep;
                if rem <= 1 {
                    break;
                }
                keep += (rem + 1) / 2;
            }
        }
        // 2. delete blocks of decreasing size
        let mut size = (cur.len() / 2).max(1).min(64);
        while size >= 1 && evals < budget {
            let mut i = 0;
            while i + size <= cur.len() && evals < budget {
                let mut cand = cur.clone();
                cand.drain(i..i + size);
                if try_cand(cand, &mut cur, &mut evals) {
                    progress = true;
                } else {
                    i += size;
                }
            }
            if size == 1 {
                break;
            }
            size /= 2;
        }
        // 3. zero blocks
        let mut size = (cur.len() / 2).max(1).min(32);
        while size >= 1 && evals < budget {
            let mut i = 0;
            while i < cur.len() && evals < budget {
                let end = (i + size).min(cur.len());
                if cur[i..end].iter().any(|b| *b != 0) {
                    let mut cand = cur.clone();
                    for b in cand[i..end].iter_mut() {
                        *b = 0;
                    }
                    if try_cand(cand, &mut cur, &mut evals) {
                        progress = true;
                    }
                }
                i += size;
            }
            if size == 1 {
                break;
            }
            size /= 2;
        }
        // 4. reduce single bytes: halve, decrement
        let mut i = 0;
        while i < cur.len() && evals < budget {
            let b = cur[i];
            if b > 0 {
                for nb in [b / 2, b - 1] {
                    if nb == b || i >= cur.len() {
                        continue;
                    }
                    let mut cand = cur.clone();
                    cand[i] = nb;
                    if try_cand(cand, &mut cur, &mut evals) {
                        progress = true;
                        break;
                    }
                }
            }
            i += 1;
        }
    }
    (cur, evals)
}
