//! Multi-session scenario runner for the concurrent properties (C13-C17, C20): one executor per
//! scenario, every session carries the `mark` action which logs (session id, tag, arguments,
//! monotonic time) into one shared log.  DESIGN.md §2.6.

use crate::engine::last_panic;
use rufsm::actions::{Action, ActionWrapper};
use rufsm::datamodel::Data;
use rufsm::fsm::{Event, FinishMode, GlobalData, ParamPair, ScxmlSession};
use rufsm::fsm_executor::FsmExecutor;
use std::sync::{Arc, Mutex};
use std::time::{Duration, Instant};

#[derive(Clone, Debug)]
pub struct MRec {
    pub session: u32,
    pub tag: String,
    pub args: Vec<String>,
    pub t: Instant,
    pub seq: u64,
}

#[derive(Default)]
pub struct MarkLog {
    pub recs: Mutex<Vec<MRec>>,
}

impl MarkLog {
    pub fn snapshot(&self) -> Vec<MRec> {
        self.recs.lock().unwrap().clone()
    }
    pub fn of(&self, session: u32) -> Vec<MRec> {
        self.recs.lock().unwrap().iter().filter(|r| r.session == session).cloned().collect()
    }
    pub fn count(&self, session: u32, tag: &str) -> usize {
        self.recs.lock().unwrap().iter().filter(|r| r.session == session && r.tag == tag).count()
    }
}

pub struct ScenMark {
    pub log: Arc<MarkLog>,
}

impl Action for ScenMark {
    fn execute(&self, arguments: &[Data], global: &GlobalData) -> Result<Data, String> {
        let tag = arguments.first().map(|d| d.to_string()).unwrap_or_default();
        let args: Vec<String> = arguments.iter().skip(1).map(|d| d.to_string()).collect();
        let mut l = self.log.recs.lock().unwrap();
        let seq = l.len() as u64;
        l.push(MRec { session: global.session_id, tag, args, t: Instant::now(), seq });
        Ok(Data::Null())
    }
    fn get_copy(&self) -> Box<dyn Action> {
        Box::new(ScenMark { log: self.log.clone() })
    }
}

/// `pause(us)` custom action: lets a document stretch a macrostep (schedule diversification).
pub struct Pause;

impl Action for Pause {
    fn execute(&self, arguments: &[Data], _global: &GlobalData) -> Result<Data, String> {
        let us = arguments.first().map(|d| d.as_number()).unwrap_or(0.0).clamp(0.0, 20_000.0) as u64;
        if us == 0 {
            std::thread::yield_now();
        } else {
            std::thread::sleep(Duration::from_micros(us));
        }
        Ok(Data::Null())
    }
    fn get_copy(&self) -> Box<dyn Action> {
        Box::new(Pause)
    }
}

pub struct Scen {
    pub exec: FsmExecutor,
    pub log: Arc<MarkLog>,
    pub sessions: Vec<ScxmlSession>,
    pub t0: Instant,
}

impl Scen {
    pub fn new() -> Scen {
        let exec = FsmExecutor::new_without_io_processor();
        exec.state.lock().unwrap().datamodel_options.insert("ecma:strict".to_string(), String::new());
        Scen { exec, log: Arc::new(MarkLog::default()), sessions: Vec::new(), t0: Instant::now() }
    }
    pub fn with_executor(exec: FsmExecutor) -> Scen {
        exec.state.lock().unwrap().datamodel_options.insert("ecma:strict".to_string(), String::new());
        Scen { exec, log: Arc::new(MarkLog::default()), sessions: Vec::new(), t0: Instant::now() }
    }

    pub fn actions(&self) -> ActionWrapper {
        let mut a = ActionWrapper::new();
        a.add_action("mark", Box::new(ScenMark { log: self.log.clone() }));
        a.add_action("pause", Box::new(Pause));
        a
    }

    /// Parses and starts a session; returns its index in `sessions`.
    pub fn start(&mut self, xml: &str, data: &[ParamPair]) -> Result<usize, String> {
        let fsm = crate::runner::parse(xml)?;
        let r = std::panic::catch_unwind(std::panic::AssertUnwindSafe(|| rufsm::fsm::start_fsm_with_data_and_finish_mode(fsm, self.actions(), Box::new(self.exec.clone()), data, FinishMode::NOTHING)));
        match r {
            Ok(s) => {
                self.sessions.push(s);
                Ok(self.sessions.len() - 1)
            }
            Err(_) => Err(format!("start panicked: {}", last_panic())),
        }
    }

    pub fn id(&self, idx: usize) -> u32 {
        self.sessions[idx].session_id
    }

    pub fn send(&self, idx: usize, e: Event) -> bool {
        self.sessions[idx].sender.send(Box::new(e)).is_ok()
    }

    pub fn send_name(&self, idx: usize, name: &str) -> bool {
        self.send(idx, Event::new_simple(name))
    }

    /// Polls `pred` until it is true or the time is up.
    pub fn wait_until(&self, timeout: Duration, mut pred: impl FnMut(&MarkLog) -> bool) -> bool {
        let deadline = Instant::now() + timeout;
        loop {
            if pred(&self.log) {
                return true;
            }
            if Instant::now() > deadline {
                return false;
            }
            std::thread::sleep(Duration::from_micros(300));
        }
    }

    /// Polls `pred`; gives up only when the mark log has not grown for `idle` (a loaded machine makes
    /// sessions slow, it does not make them silent) or after `idle * 12` in total.
    pub fn wait_progress(&self, idle: Duration, mut pred: impl FnMut(&MarkLog) -> bool) -> bool {
        let start = Instant::now();
        let mut last_len = self.log.recs.lock().unwrap().len();
        let mut last_change = Instant::now();
        loop {
            if pred(&self.log) {
                return true;
            }
            let l = self.log.recs.lock().unwrap().len();
            if l != last_len {
                last_len = l;
                last_change = Instant::now();
            }
            if last_change.elapsed() > idle || start.elapsed() > idle * 12 {
                return pred(&self.log);
            }
            std::thread::sleep(Duration::from_micros(500));
        }
    }

    pub fn cancel_all(&self) {
        for s in &self.sessions {
            let _ = s.sender.send(Box::new(Event::new_simple("error.platform.cancel")));
        }
    }

    /// Joins all sessions started through `start`; returns (all ended in time, panic texts).
    pub fn join_all(&mut self, timeout: Duration) -> (bool, Vec<String>) {
        let r = self.join_all_keep(timeout);
        if let Ok(mut st) = self.exec.state.lock() {
            st.sessions.clear();
        }
        r
    }

    /// Like `join_all` but leaves the executor's session table alone (invoked sessions that are
    /// still ending need it to cancel their own children).
    pub fn join_all_keep(&mut self, timeout: Duration) -> (bool, Vec<String>) {
        let deadline = Instant::now() + timeout;
        let mut all = true;
        let mut panics = Vec::new();
        for s in self.sessions.iter_mut() {
            if let Some(h) = s.thread.take() {
                while !h.is_finished() && Instant::now() < deadline {
                    std::thread::sleep(Duration::from_micros(200));
                }
                if h.is_finished() {
                    if h.join().is_err() {
                        panics.push(last_panic());
                    }
                } else {
                    all = false;
                }
            }
        }
        (all, panics)
    }
}
