pub fn hello() {}
