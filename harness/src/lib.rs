pub mod checks;
pub mod engine;
pub mod expr;
pub mod exprrun;
pub mod shrink;
pub mod tape;
