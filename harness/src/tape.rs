//! The byte tape every generator reads its random choices from.
//!
//! All generators are functions `gen(&mut Tape) -> Case`.  A tape is produced either by the
//! PRNG (random PBT; `Tape::random`), by libFuzzer (the same decoders are the body of the
//! cargo-fuzz targets) or by the shrinker.  Conventions that make tape shrinking effective:
//! reading past the end yields zeros; a zero byte means "absent / false / first alternative /
//! smallest"; indices are mapped monotonically (`v*n >> 8`), never with `%`.

use rand::rngs::StdRng;
use rand::{RngCore, SeedableRng};

pub struct Tape<'a> {
    data: &'a [u8],
    pos: usize,
}

impl<'a> Tape<'a> {
    pub fn new(data: &'a [u8]) -> Tape<'a> {
        Tape { data, pos: 0 }
    }

    pub fn consumed(&self) -> usize {
        self.pos
    }

    pub fn exhausted(&self) -> bool {
        self.pos >= self.data.len()
    }

    pub fn u8(&mut self) -> u8 {
        let v = if self.pos < self.data.len() { self.data[self.pos] } else { 0 };
        self.pos += 1;
        v
    }

    pub fn u16(&mut self) -> u16 {
        let hi = self.u8() as u16;
        let lo = self.u8() as u16;
        (hi << 8) | lo
    }

    pub fn u32(&mut self) -> u32 {
        let hi = self.u16() as u32;
        let lo = self.u16() as u32;
        (hi << 16) | lo
    }

    pub fn u64(&mut self) -> u64 {
        let hi = self.u32() as u64;
        let lo = self.u32() as u64;
        (hi << 32) | lo
    }

    /// Uniform-ish index in `0..n` (monotone in the tape bytes; 0 for a zero tape).
    pub fn below(&mut self, n: usize) -> usize {
        if n <= 1 {
            return 0;
        }
        if n <= 256 {
            ((self.u8() as usize) * n) >> 8
        } else {
            let v = self.u32() as u64;
            ((v * n as u64) >> 32) as usize
        }
    }

    /// Inclusive range.
    pub fn range(&mut self, lo: i64, hi: i64) -> i64 {
        if hi <= lo {
            return lo;
        }
        lo + self.below((hi - lo + 1) as usize) as i64
    }

    /// True with probability `percent`/100; false on a zero tape.
    pub fn chance(&mut self, percent: u32) -> bool {
        let v = self.u8() as u32;
        let thr = percent * 256 / 100;
        v >= 256 - thr.min(256)
    }

    pub fn bool(&mut self) -> bool {
        self.u8() >= 128
    }

    pub fn pick<'b, T>(&mut self, items: &'b [T]) -> &'b T {
        &items[self.below(items.len())]
    }

    /// Weighted choice: returns index; first alternative on a zero tape.
    pub fn weighted(&mut self, weights: &[u32]) -> usize {
        let total: u32 = weights.iter().sum();
        if total == 0 {
            return 0;
        }
        let v = (self.u16() as u64 * total as u64) >> 16;
        let mut acc = 0u64;
        for (i, w) in weights.iter().enumerate() {
            acc += *w as u64;
            if v < acc {
                return i;
            }
        }
        weights.len() - 1
    }

    pub fn rest(&mut self) -> &'a [u8] {
        let r = if self.pos < self.data.len() { &self.data[self.pos..] } else { &[] };
        self.pos = self.data.len();
        r
    }
}

/// SplitMix-style mixing of seed, property tag and case index into a PRNG seed.
pub fn mix(seed: u64, tag: &str, phase: u64, idx: u64) -> u64 {
    let mut h: u64 = 0xcbf29ce484222325 ^ seed.wrapping_mul(0x9E3779B97F4A7C15);
    for b in tag.bytes() {
        h ^= b as u64;
        h = h.wrapping_mul(0x100000001b3);
    }
    h ^= phase.wrapping_mul(0xD6E8FEB86659FD93);
    h = h.rotate_left(23).wrapping_mul(0x9E3779B97F4A7C15);
    h ^= idx.wrapping_mul(0xBF58476D1CE4E5B9);
    h ^= h >> 31;
    h = h.wrapping_mul(0x94D049BB133111EB);
    h ^ (h >> 29)
}

pub fn random_tape(seed: u64, tag: &str, phase: u64, idx: u64, len: usize) -> Vec<u8> {
    let mut rng = StdRng::seed_from_u64(mix(seed, tag, phase, idx));
    let mut v = vec![0u8; len];
    rng.fill_bytes(&mut v);
    // A fraction of the cases gets a "sparse" tape (many zero bytes): small, simple cases are
    // valuable too and random bytes alone would never produce them.
    let mode = rng.next_u32() % 8;
    if mode == 0 {
        for b in v.iter_mut() {
            if rng.next_u32() % 3 != 0 {
                *b = 0;
            }
        }
    } else if mode == 1 {
        let keep = (rng.next_u32() as usize) % (len.max(1));
        for b in v.iter_mut().skip(keep) {
            *b = 0;
        }
    }
    v
}

pub fn fnv64(bytes: &[u8]) -> u64 {
    let mut h: u64 = 0xcbf29ce484222325;
    for b in bytes {
        h ^= *b as u64;
        h = h.wrapping_mul(0x100000001b3);
    }
    h
}

pub fn to_hex(b: &[u8]) -> String {
    let mut s = String::with_capacity(b.len() * 2);
    for x in b {
        s.push_str(&format!("{:02x}", x));
    }
    s
}

pub fn from_hex(s: &str) -> Vec<u8> {
    let s = s.trim();
    let mut v = Vec::with_capacity(s.len() / 2);
    let bytes = s.as_bytes();
    let mut i = 0;
    while i + 1 < bytes.len() {
        let h = (bytes[i] as char).to_digit(16).unwrap_or(0) as u8;
        let l = (bytes[i + 1] as char).to_digit(16).unwrap_or(0) as u8;
        v.push((h << 4) | l);
        i += 2;
    }
    v
}
