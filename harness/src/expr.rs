//! Expression AST for the rfsm-expression language, generator, renderer and an independent
//! reference evaluator (precedence climbing over the documented priority table, value
//! semantics from src/expression_engine/README.md).  DESIGN.md §2.4.

use crate::tape::Tape;
use std::collections::BTreeMap;

#[derive(Clone, Copy, Debug, PartialEq, Eq, Hash)]
pub enum Op {
    Mul,
    Div,
    DivColon,
    Mod,
    And,
    Plus,
    Minus,
    Or,
    Lt,
    Le,
    Gt,
    Ge,
    Eq,
    Ne,
}

pub const ALL_OPS: [Op; 14] =
    [Op::Mul, Op::Div, Op::DivColon, Op::Mod, Op::And, Op::Plus, Op::Minus, Op::Or, Op::Lt, Op::Le, Op::Gt, Op::Ge, Op::Eq, Op::Ne];

impl Op {
    /// priority table as written down in parser.rs::stack_to_expression (smaller binds tighter)
    pub fn prio(&self) -> u8 {
        match self {
            Op::Mul | Op::Div | Op::DivColon | Op::Mod | Op::And => 5,
            Op::Plus | Op::Minus | Op::Or => 6,
            Op::Lt | Op::Le | Op::Gt | Op::Ge => 9,
            Op::Eq | Op::Ne => 10,
        }
    }
    pub fn text(&self) -> &'static str {
        match self {
            Op::Mul => "*",
            Op::Div => "/",
            Op::DivColon => ":",
            Op::Mod => "%",
            Op::And => "&",
            Op::Plus => "+",
            Op::Minus => "-",
            Op::Or => "|",
            Op::Lt => "<",
            Op::Le => "<=",
            Op::Gt => ">",
            Op::Ge => ">=",
            Op::Eq => "==",
            Op::Ne => "!=",
        }
    }
}

#[derive(Clone, Debug, PartialEq)]
pub enum E {
    Int(i64),
    Dbl(f64),
    Str(String),
    Bool(bool),
    Null,
    Var(String),
    Arr(Vec<E>),
    Map(Vec<(MapKey, E)>),
    Index(Box<E>, Box<E>),
    Member(Box<E>, String),
    Call(String, Vec<E>),
    MCall(Box<E>, String, Vec<E>),
    Not(Box<E>),
    Bin(Op, Box<E>, Box<E>),
    Assign(Box<E>, Box<E>),
    Init(Box<E>, Box<E>),
    Seq(Vec<E>),
}

#[derive(Clone, Debug, PartialEq)]
pub enum MapKey {
    S(String),
    B(bool),
}

impl MapKey {
    pub fn key(&self) -> String {
        match self {
            MapKey::S(s) => s.clone(),
            MapKey::B(b) => b.to_string(),
        }
    }
}

impl E {
    fn prio(&self) -> u8 {
        match self {
            E::Bin(op, _, _) => op.prio(),
            E::Not(_) => 3,
            E::Assign(..) | E::Init(..) => 16,
            E::Seq(_) => 20,
            E::Index(..) | E::Member(..) | E::MCall(..) => 2,
            // a negative literal next to an operator is legal, but as base of a postfix it needs parens
            _ => 0,
        }
    }
    pub fn size(&self) -> usize {
        match self {
            E::Arr(v) | E::Call(_, v) | E::Seq(v) => 1 + v.iter().map(|e| e.size()).sum::<usize>(),
            E::Map(m) => 1 + m.iter().map(|(_, e)| e.size()).sum::<usize>(),
            E::Index(a, b) | E::Bin(_, a, b) | E::Assign(a, b) | E::Init(a, b) => 1 + a.size() + b.size(),
            E::Member(a, _) | E::Not(a) => 1 + a.size(),
            E::MCall(a, _, v) => 1 + a.size() + v.iter().map(|e| e.size()).sum::<usize>(),
            _ => 1,
        }
    }
}

// ------------------------------------------------------------------------------------------
// rendering

/// Lexical choices: whitespace and redundant parentheses, driven by a tape.
pub struct Lex<'a, 'b> {
    pub tape: Option<&'a mut Tape<'b>>,
    pub ws_level: u8,     // 0 = canonical single spaces, 1 = random whitespace
    pub paren_pct: u32,   // chance of a redundant pair of parentheses around a sub-expression
}

impl<'a, 'b> Lex<'a, 'b> {
    pub fn canonical() -> Lex<'static, 'static> {
        Lex { tape: None, ws_level: 0, paren_pct: 0 }
    }
    /// optional whitespace (may be empty)
    fn ows(&mut self) -> String {
        match (&mut self.tape, self.ws_level) {
            (Some(t), 1) => match t.below(8) {
                0 | 1 | 2 => "".into(),
                3 | 4 => " ".into(),
                5 => "  ".into(),
                6 => "\t".into(),
                _ => "\n ".into(),
            },
            _ => "".into(),
        }
    }
    /// whitespace around binary operators: canonical = one space
    fn sp(&mut self) -> String {
        match (&mut self.tape, self.ws_level) {
            (Some(t), 1) => match t.below(6) {
                0 | 1 => " ".into(),
                2 => "".into(),
                3 => "  ".into(),
                4 => "\t".into(),
                _ => " \r\n".into(),
            },
            _ => " ".into(),
        }
    }
    fn redundant(&mut self) -> bool {
        let p = self.paren_pct;
        match &mut self.tape {
            Some(t) if p > 0 => t.chance(p),
            _ => false,
        }
    }
}

pub fn quote(s: &str, prefer_double: bool) -> String {
    // JSON escapes; choose a delimiter that does not occur unescaped if possible
    let has_sq = s.contains('\'');
    let delim = if has_sq { '"' } else if s.contains('"') { '\'' } else if prefer_double { '"' } else { '\'' };
    let mut o = String::new();
    o.push(delim);
    for c in s.chars() {
        match c {
            '\\' => o.push_str("\\\\"),
            '"' if delim == '"' => o.push_str("\\\""),
            '\n' => o.push_str("\\n"),
            '\r' => o.push_str("\\r"),
            '\t' => o.push_str("\\t"),
            '\x08' => o.push_str("\\b"),
            '\x0c' => o.push_str("\\f"),
            c => o.push(c),
        }
    }
    o.push(delim);
    o
}

/// Same string, but characters outside ASCII (and the letter 'a') written as JSON \uXXXX escapes.
pub fn quote_unicode_escaped(s: &str, prefer_double: bool) -> String {
    let q = quote(s, prefer_double);
    let mut o = String::new();
    let inner: Vec<char> = q.chars().collect();
    for (i, c) in inner.iter().enumerate() {
        let is_delim = i == 0 || i + 1 == inner.len();
        let prev_backslash = i > 0 && inner[i - 1] == '\\';
        if !is_delim && !prev_backslash && ((*c as u32) > 0x7f || *c == 'a') && (*c as u32) <= 0xffff {
            o.push_str(&format!("\\u{:04x}", *c as u32));
        } else {
            o.push(*c);
        }
    }
    o
}

pub fn fmt_double(d: f64) -> String {
    // JSON number syntax with a fraction or exponent so that it lexes as Double
    let s = format!("{}", d);
    if s.contains('.') || s.contains('e') || s.contains('E') || s.contains("inf") || s.contains("NaN") {
        s
    } else {
        format!("{}.0", s)
    }
}

pub fn render(e: &E, lex: &mut Lex) -> String {
    let inner = render_inner(e, lex);
    if !matches!(e, E::Seq(_)) && lex.redundant() {
        format!("({}{}{})", lex.ows(), inner, lex.ows())
    } else {
        inner
    }
}

fn paren_if(need: bool, s: String) -> String {
    if need {
        format!("({})", s)
    } else {
        s
    }
}

fn render_base(e: &E, lex: &mut Lex) -> String {
    // base of a postfix operator: numbers (esp. negative ones / with a dot) and everything of
    // lower binding strength go in parentheses
    let need = match e {
        E::Int(_) | E::Dbl(_) => true,
        E::Bool(_) | E::Null => true,
        _ => e.prio() > 2,
    };
    let s = render(e, lex);
    paren_if(need, s)
}

fn render_args(v: &[E], lex: &mut Lex) -> String {
    let mut o = String::new();
    for (i, a) in v.iter().enumerate() {
        if i > 0 {
            o.push(',');
        }
        o.push_str(&lex.ows());
        // a sequence inside an argument list would be split at ';' -- never generated there
        o.push_str(&render(a, lex));
        o.push_str(&lex.ows());
    }
    o
}

fn render_inner(e: &E, lex: &mut Lex) -> String {
    match e {
        E::Int(i) => i.to_string(),
        E::Dbl(d) => fmt_double(*d),
        E::Str(s) => {
            let (pd, esc) = match &mut lex.tape {
                Some(t) => (t.bool(), t.chance(25)),
                None => (false, false),
            };
            if esc {
                quote_unicode_escaped(s, pd)
            } else {
                quote(s, pd)
            }
        }
        E::Bool(b) => b.to_string(),
        E::Null => "null".into(),
        E::Var(n) => n.clone(),
        E::Arr(v) => format!("[{}]", render_args(v, lex)),
        E::Map(m) => {
            let mut o = String::from("{");
            for (i, (k, v)) in m.iter().enumerate() {
                if i > 0 {
                    o.push(',');
                }
                o.push_str(&lex.ows());
                match k {
                    MapKey::S(s) => o.push_str(&quote(s, false)),
                    MapKey::B(b) => o.push_str(&b.to_string()),
                }
                o.push_str(&lex.ows());
                o.push(':');
                o.push_str(&lex.ows());
                o.push_str(&render(v, lex));
                o.push_str(&lex.ows());
            }
            o.push('}');
            o
        }
        E::Index(b, i) => format!("{}{}[{}{}{}]", render_base(b, lex), lex.ows(), lex.ows(), render(i, lex), lex.ows()),
        E::Member(b, n) => format!("{}{}.{}{}", render_base(b, lex), lex.ows(), lex.ows(), n),
        E::Call(n, a) => format!("{}{}({})", n, lex.ows(), render_args(a, lex)),
        E::MCall(b, n, a) => format!("{}{}.{}{}{}({})", render_base(b, lex), lex.ows(), lex.ows(), n, lex.ows(), render_args(a, lex)),
        E::Not(x) => {
            let need = x.prio() > 3;
            let s = render(x, lex);
            format!("!{}{}", lex.ows(), paren_if(need, s))
        }
        E::Bin(op, l, r) => {
            let lp = l.prio() > op.prio();
            let rp = r.prio() >= op.prio();
            let ls = render(l, lex);
            let rs = render(r, lex);
            let mut rs = paren_if(rp, rs);
            let ls = paren_if(lp, ls);
            // the grammar glues a '-' to a following digit: "a - -1" is fine, "a -1" is not an operator
            let mut sp_after = lex.sp();
            if *op == Op::Minus && sp_after.is_empty() {
                sp_after = " ".into();
            }
            if *op == Op::Minus || *op == Op::Plus {
                // "1 +2" lexes '+' as operator, fine; "1 -2" would be two numbers -> keep the space
                if rs.starts_with('-') && sp_after.is_empty() {
                    rs = format!(" {}", rs);
                }
            }
            let sp_before = lex.sp();
            format!("{}{}{}{}{}", ls, sp_before, op.text(), sp_after, rs)
        }
        E::Assign(l, r) | E::Init(l, r) => {
            let opt = if matches!(e, E::Assign(..)) { "=" } else { "?=" };
            let rp = r.prio() > 16;
            let rs = render(r, lex);
            format!("{}{}{}{}{}", render_inner(l, lex), lex.sp(), opt, lex.sp(), paren_if(rp, rs))
        }
        E::Seq(v) => {
            let mut o = String::new();
            for (i, x) in v.iter().enumerate() {
                if i > 0 {
                    o.push(';');
                    o.push_str(&lex.sp());
                }
                o.push_str(&render(x, lex));
            }
            o
        }
    }
}

// ------------------------------------------------------------------------------------------
// values and the reference evaluator

#[derive(Clone, Debug, PartialEq)]
pub enum V {
    Int(i64),
    Dbl(f64),
    Str(String),
    Bool(bool),
    Arr(Vec<V>),
    Map(BTreeMap<String, V>),
    Null,
    /// Data::None (result of log(), empty content)
    NoneV,
    /// Data::Error found inside a container or a variable (never produced by the reference)
    ErrV(String),
}

#[derive(Clone, Debug, PartialEq)]
pub enum R {
    Val(V),
    /// evaluation error (the language's error result)
    Err,
    /// error *value* produced by an operator applied to operands of the wrong type. At the top
    /// level it is an error like `Err`; nested, arithmetic/logic operators pass it on, while the
    /// documentation does not say what comparisons, containers or '?=' do with it.
    Soft,
    /// the documentation does not define the result: the comparison is skipped
    Unspec(&'static str),
}

#[derive(Clone, Debug)]
pub struct Store {
    pub vars: BTreeMap<String, (V, bool)>, // value, read-only
}

impl V {
    fn is_num(&self) -> bool {
        matches!(self, V::Int(_) | V::Dbl(_))
    }
    fn num(&self) -> f64 {
        match self {
            V::Int(i) => *i as f64,
            V::Dbl(d) => *d,
            _ => 0.0,
        }
    }
    pub fn text(&self) -> Option<String> {
        // textual form used by '+' on strings and by toString for scalars
        match self {
            V::Int(i) => Some(i.to_string()),
            V::Dbl(d) => Some(format!("{}", d)),
            V::Str(s) => Some(s.clone()),
            V::Bool(b) => Some(b.to_string()),
            V::Null => Some("null".into()),
            _ => None,
        }
    }
    pub fn is_collection(&self) -> bool {
        matches!(self, V::Arr(_) | V::Map(_))
    }
}

pub fn struct_eq(a: &V, b: &V) -> bool {
    match (a, b) {
        (V::Int(x), V::Int(y)) => x == y,
        (V::Int(x), V::Dbl(y)) | (V::Dbl(y), V::Int(x)) => (*x as f64) == *y,
        (V::Dbl(x), V::Dbl(y)) => x == y,
        (V::Str(x), V::Str(y)) => x == y,
        (V::Bool(x), V::Bool(y)) => x == y,
        (V::Null, V::Null) => true,
        (V::NoneV, V::NoneV) => true,
        (V::Arr(x), V::Arr(y)) => x.len() == y.len() && x.iter().zip(y.iter()).all(|(p, q)| struct_eq(p, q)),
        (V::Map(x), V::Map(y)) => x.len() == y.len() && x.iter().all(|(k, v)| y.get(k).map(|w| struct_eq(v, w)).unwrap_or(false)),
        _ => false,
    }
}

pub struct RefEval {
    pub store: Store,
    /// set when an undocumented corner was touched although a value was still produced
    pub unspec: Option<&'static str>,
    /// state ids for In()
    pub in_states: Vec<String>,
    /// a map with several entries was converted to text: the result follows HashMap iteration order
    pub order_dependent: bool,
}

pub fn has_multi_map(v: &V) -> bool {
    match v {
        V::Map(m) => m.len() > 1 || m.values().any(has_multi_map),
        V::Arr(a) => a.iter().any(has_multi_map),
        _ => false,
    }
}

/// operand in a context where an error value is turned into a hard error
macro_rules! val {
    ($r:expr) => {
        match $r {
            R::Val(v) => v,
            R::Soft => return R::Err,
            other => return other,
        }
    };
}

/// operand in a context where the fate of an error value is not documented
macro_rules! val_u {
    ($r:expr) => {
        match $r {
            R::Val(v) => v,
            R::Soft => return R::Unspec("error value stored in a container / initialised variable"),
            other => return other,
        }
    };
}

impl RefEval {
    pub fn new(store: Store) -> RefEval {
        RefEval { store, unspec: None, in_states: vec![], order_dependent: false }
    }

    pub fn eval(&mut self, e: &E) -> R {
        match e {
            E::Int(i) => R::Val(V::Int(*i)),
            E::Dbl(d) => R::Val(V::Dbl(*d)),
            E::Str(s) => R::Val(V::Str(s.clone())),
            E::Bool(b) => R::Val(V::Bool(*b)),
            E::Null => R::Val(V::Null),
            E::Var(n) => match self.store.vars.get(n) {
                Some((v, _)) => R::Val(v.clone()),
                None => R::Err,
            },
            E::Arr(items) => {
                let mut v = Vec::new();
                for i in items {
                    v.push(val_u!(self.eval(i)));
                }
                R::Val(V::Arr(v))
            }
            E::Map(items) => {
                let mut m = BTreeMap::new();
                for (k, i) in items {
                    let v = val_u!(self.eval(i));
                    m.insert(k.key(), v);
                }
                R::Val(V::Map(m))
            }
            E::Index(b, i) => {
                let bv = val!(self.eval(b));
                let iv = val!(self.eval(i));
                match bv {
                    V::Arr(a) => match iv {
                        V::Int(k) => {
                            if k >= 0 && (k as usize) < a.len() {
                                R::Val(a[k as usize].clone())
                            } else {
                                R::Err
                            }
                        }
                        V::Dbl(_) => R::Unspec("array index of type Double"),
                        _ => R::Err,
                    },
                    V::Map(m) => match iv {
                        V::Arr(_) | V::Map(_) | V::NoneV => R::Unspec("collection as map key"),
                        V::Dbl(_) => R::Unspec("Double as map key"),
                        other => match m.get(&other.text().unwrap()) {
                            Some(v) => R::Val(v.clone()),
                            None => R::Err,
                        },
                    },
                    _ => R::Err,
                }
            }
            E::Member(b, n) => {
                let bv = val!(self.eval(b));
                match bv {
                    V::Map(m) => match m.get(n) {
                        Some(v) => R::Val(v.clone()),
                        None => R::Err,
                    },
                    _ => R::Err,
                }
            }
            E::Call(n, args) => self.call(n, args),
            E::MCall(b, n, args) => {
                let mut all = vec![(**b).clone()];
                all.extend(args.iter().cloned());
                self.call(n, &all)
            }
            E::Not(x) => match val!(self.eval(x)) {
                V::Bool(b) => R::Val(V::Bool(!b)),
                _ => R::Err,
            },
            E::Bin(op, l, r) => {
                let lr = self.eval(l);
                if matches!(lr, R::Err | R::Unspec(_)) {
                    return lr;
                }
                let rr = self.eval(r);
                if matches!(rr, R::Err | R::Unspec(_)) {
                    return rr;
                }
                match (lr, rr) {
                    (R::Val(lv), R::Val(rv)) => self.binop(*op, &lv, &rv),
                    _ => match op {
                        Op::Eq | Op::Ne | Op::Lt | Op::Le | Op::Gt | Op::Ge => R::Unspec("comparison with an error value"),
                        _ => R::Soft,
                    },
                }
            }
            E::Assign(l, r) => {
                let rv = val!(self.eval(r));
                if matches!(rv, V::NoneV) {
                    return R::Err;
                }
                if rv.is_collection() && mentions_var(r) {
                    return R::Unspec("assignment of a collection built from variables (copy vs. shared storage is not documented)");
                }
                self.assign(l, rv, false)
            }
            E::Init(l, r) => {
                let rv = val_u!(self.eval(r));
                if rv.is_collection() && mentions_var(r) {
                    return R::Unspec("initialisation with a collection built from variables (copy vs. shared storage is not documented)");
                }
                self.assign(l, rv, true)
            }
            E::Seq(v) => {
                let mut last = R::Val(V::NoneV);
                let n = v.len();
                for (i, x) in v.iter().enumerate() {
                    last = self.eval(x);
                    if i + 1 < n {
                        match last {
                            R::Err | R::Soft => return R::Unspec("error in a non-final element of an expression list"),
                            R::Unspec(w) => return R::Unspec(w),
                            _ => {}
                        }
                    }
                }
                last
            }
        }
    }

    fn lookup_mut(&mut self, l: &E, create: bool) -> Result<&mut V, R> {
        match l {
            E::Var(n) => {
                if !self.store.vars.contains_key(n) {
                    if create {
                        self.store.vars.insert(n.clone(), (V::NoneV, false));
                    } else {
                        return Err(R::Err);
                    }
                }
                let (v, ro) = self.store.vars.get_mut(n).unwrap();
                if *ro {
                    return Err(R::Err);
                }
                Ok(v)
            }
            E::Member(b, n) => {
                let base = self.lookup_mut(b, create)?;
                match base {
                    V::Map(m) => {
                        if !m.contains_key(n) {
                            if create {
                                m.insert(n.clone(), V::NoneV);
                            } else {
                                return Err(R::Err);
                            }
                        }
                        Ok(m.get_mut(n).unwrap())
                    }
                    _ => Err(R::Err),
                }
            }
            E::Index(b, i) => {
                let iv = match self.eval(i) {
                    R::Val(v) => v,
                    R::Soft => return Err(R::Err),
                    o => return Err(o),
                };
                let base = self.lookup_mut(b, create)?;
                match base {
                    V::Arr(a) => match iv {
                        V::Int(k) if k >= 0 && (k as usize) < a.len() => Ok(&mut a[k as usize]),
                        V::Int(_) => Err(R::Err),
                        V::Dbl(_) => Err(R::Unspec("array index of type Double")),
                        _ => Err(R::Err),
                    },
                    V::Map(m) => {
                        let key = match iv {
                            V::Arr(_) | V::Map(_) | V::NoneV | V::Dbl(_) => return Err(R::Unspec("odd map key")),
                            o => o.text().unwrap(),
                        };
                        if !m.contains_key(&key) {
                            if create {
                                m.insert(key.clone(), V::NoneV);
                            } else {
                                return Err(R::Err);
                            }
                        }
                        Ok(m.get_mut(&key).unwrap())
                    }
                    _ => Err(R::Err),
                }
            }
            _ => Err(R::Err),
        }
    }

    fn assign(&mut self, l: &E, rv: V, create: bool) -> R {
        // read-only applies to the variable itself and to everything reachable through it
        if let Some(root) = root_var(l) {
            if let Some((_, true)) = self.store.vars.get(&root) {
                return R::Err;
            }
        }
        match self.lookup_mut(l, create) {
            Ok(slot) => {
                *slot = rv.clone();
                R::Val(rv)
            }
            Err(r) => r,
        }
    }

    fn call(&mut self, n: &str, args: &[E]) -> R {
        // arguments that fail to evaluate are passed as error values (isDefined relies on it)
        let mut vals: Vec<Option<V>> = Vec::new();
        for a in args {
            match self.eval(a) {
                R::Val(v) => vals.push(Some(v)),
                R::Err | R::Soft => vals.push(None),
                R::Unspec(w) => return R::Unspec(w),
            }
        }
        match n {
            "isDefined" => {
                if vals.len() != 1 {
                    return R::Err;
                }
                R::Val(V::Bool(!matches!(vals[0], None | Some(V::NoneV))))
            }
            "abs" => {
                if vals.len() != 1 {
                    return R::Err;
                }
                match &vals[0] {
                    Some(V::Int(i)) => {
                        if *i == i64::MIN {
                            // |MIN| is not representable; Integer arithmetic saturates elsewhere
                            R::Unspec("abs(i64::MIN)")
                        } else {
                            R::Val(V::Int(i.abs()))
                        }
                    }
                    Some(V::Dbl(d)) => R::Val(V::Dbl(d.abs())),
                    _ => R::Err,
                }
            }
            "length" => {
                if vals.len() != 1 {
                    return R::Err;
                }
                match &vals[0] {
                    Some(V::Str(s)) => {
                        if s.is_ascii() {
                            R::Val(V::Int(s.len() as i64))
                        } else {
                            R::Unspec("length of non-ASCII string (characters vs bytes)")
                        }
                    }
                    Some(V::Arr(a)) => R::Val(V::Int(a.len() as i64)),
                    Some(V::Map(m)) => R::Val(V::Int(m.len() as i64)),
                    _ => R::Err,
                }
            }
            "indexOf" => {
                if vals.len() != 2 {
                    return R::Err;
                }
                match (&vals[0], &vals[1]) {
                    (Some(V::Str(a)), Some(V::Str(b))) => {
                        if !a.is_ascii() || !b.is_ascii() {
                            return R::Unspec("indexOf on non-ASCII strings");
                        }
                        R::Val(V::Int(a.find(b.as_str()).map(|i| i as i64).unwrap_or(-1)))
                    }
                    _ => R::Err,
                }
            }
            "toString" => {
                if vals.len() != 1 {
                    return R::Err;
                }
                if let Some(v) = &vals[0] {
                    if has_multi_map(v) {
                        self.order_dependent = true;
                    }
                }
                match &vals[0] {
                    None => R::Err,
                    Some(v) => match to_string_doc(v) {
                        Some(s) => R::Val(V::Str(s)),
                        None => R::Unspec("toString of map with several entries / none"),
                    },
                }
            }
            "In" => {
                if vals.len() != 1 {
                    return R::Err;
                }
                match &vals[0] {
                    Some(V::Str(s)) => R::Val(V::Bool(self.in_states.contains(s))),
                    _ => R::Err,
                }
            }
            _ => R::Err, // unknown action
        }
    }

    pub fn binop(&mut self, op: Op, l: &V, r: &V) -> R {
        use Op::*;
        if op == Plus && (matches!(l, V::Str(_)) || matches!(r, V::Str(_))) && (has_multi_map(l) || has_multi_map(r)) {
            self.order_dependent = true;
        }
        if matches!(l, V::NoneV) || matches!(r, V::NoneV) {
            return R::Unspec("operator on an empty (none) value");
        }
        match op {
            Eq => R::Val(V::Bool(struct_eq(l, r))),
            Ne => R::Val(V::Bool(!struct_eq(l, r))),
            And | Or => match (l, r) {
                (V::Bool(a), V::Bool(b)) => R::Val(V::Bool(if op == And { *a && *b } else { *a || *b })),
                _ => R::Soft,
            },
            Lt | Le | Gt | Ge => {
                if l.is_num() && r.is_num() {
                    if let (V::Int(a), V::Int(b)) = (l, r) {
                        // exact for integers; the implementation compares as f64
                        let exact = match op {
                            Lt => a < b,
                            Le => a <= b,
                            Gt => a > b,
                            _ => a >= b,
                        };
                        let viaf = match op {
                            Lt => (*a as f64) < (*b as f64),
                            Le => (*a as f64) <= (*b as f64),
                            Gt => (*a as f64) > (*b as f64),
                            _ => (*a as f64) >= (*b as f64),
                        };
                        if exact != viaf {
                            return R::Unspec("integer comparison beyond 2^53");
                        }
                        return R::Val(V::Bool(exact));
                    }
                    let (a, b) = (l.num(), r.num());
                    R::Val(V::Bool(match op {
                        Lt => a < b,
                        Le => a <= b,
                        Gt => a > b,
                        _ => a >= b,
                    }))
                } else if let (V::Str(a), V::Str(b)) = (l, r) {
                    R::Val(V::Bool(match op {
                        Lt => a < b,
                        Le => a <= b,
                        Gt => a > b,
                        _ => a >= b,
                    }))
                } else {
                    R::Unspec("ordering of values that are neither numbers nor strings")
                }
            }
            Plus => match (l, r) {
                (V::Int(a), V::Int(b)) => R::Val(V::Int(a.saturating_add(*b))),
                (a, b) if a.is_num() && b.is_num() => R::Val(V::Dbl(a.num() + b.num())),
                (V::Str(a), b) => match b.text() {
                    Some(t) if !matches!(b, V::Null) => R::Val(V::Str(format!("{}{}", a, t))),
                    _ => R::Unspec("string + collection/null"),
                },
                (V::Arr(a), V::Arr(b)) => {
                    let mut v = a.clone();
                    v.extend(b.iter().cloned());
                    R::Val(V::Arr(v))
                }
                (V::Arr(a), b) => {
                    let mut v = a.clone();
                    v.push(b.clone());
                    R::Val(V::Arr(v))
                }
                (a, V::Str(b)) => match a.text() {
                    Some(t) if !matches!(a, V::Null) => R::Val(V::Str(format!("{}{}", t, b))),
                    _ => R::Unspec("collection/null + string"),
                },
                (V::Map(a), V::Map(b)) => {
                    let mut m = a.clone();
                    for (k, v) in b {
                        m.insert(k.clone(), v.clone());
                    }
                    R::Val(V::Map(m))
                }
                (V::Null, _) | (_, V::Null) => R::Unspec("null in '+'"),
                (V::Bool(_), V::Bool(_)) => R::Unspec("boolean + boolean"),
                _ => R::Soft,
            },
            Minus | Mul | Mod | Div | DivColon => {
                if matches!(l, V::Null) || matches!(r, V::Null) {
                    return R::Unspec("null in arithmetic");
                }
                if !(l.is_num() && r.is_num()) {
                    return R::Soft;
                }
                match op {
                    Minus => match (l, r) {
                        (V::Int(a), V::Int(b)) => R::Val(V::Int(a.saturating_sub(*b))),
                        _ => R::Val(V::Dbl(l.num() - r.num())),
                    },
                    Mul => match (l, r) {
                        (V::Int(a), V::Int(b)) => R::Val(V::Int(a.saturating_mul(*b))),
                        _ => R::Val(V::Dbl(l.num() * r.num())),
                    },
                    Mod => match (l, r) {
                        (V::Int(_), V::Int(0)) => R::Unspec("integer remainder by zero"),
                        (V::Int(a), V::Int(b)) => {
                            if *a == i64::MIN && *b == -1 {
                                R::Val(V::Int(0))
                            } else {
                                R::Val(V::Int(a % b))
                            }
                        }
                        _ => {
                            let v = l.num() % r.num();
                            if v.is_nan() {
                                R::Unspec("NaN remainder")
                            } else {
                                R::Val(V::Dbl(v))
                            }
                        }
                    },
                    _ => {
                        let d = r.num();
                        if d == 0.0 {
                            return R::Unspec("division by zero");
                        }
                        let v = l.num() / d;
                        if v.is_nan() {
                            R::Unspec("NaN quotient")
                        } else {
                            R::Val(V::Dbl(v))
                        }
                    }
                }
            }
        }
    }
}

pub fn mentions_var(e: &E) -> bool {
    match e {
        E::Var(_) => true,
        E::Arr(v) | E::Call(_, v) | E::Seq(v) => v.iter().any(mentions_var),
        E::Map(m) => m.iter().any(|(_, x)| mentions_var(x)),
        E::Index(a, b) | E::Bin(_, a, b) | E::Assign(a, b) | E::Init(a, b) => mentions_var(a) || mentions_var(b),
        E::Member(a, _) | E::Not(a) => mentions_var(a),
        E::MCall(a, _, v) => mentions_var(a) || v.iter().any(mentions_var),
        _ => false,
    }
}

fn root_var(l: &E) -> Option<String> {
    match l {
        E::Var(n) => Some(n.clone()),
        E::Member(b, _) | E::Index(b, _) => root_var(b),
        _ => None,
    }
}

/// toString as documented ("textual representation"): scalars as text, arrays joined by ','.
pub fn to_string_doc(v: &V) -> Option<String> {
    match v {
        V::Arr(a) => {
            let mut parts = Vec::new();
            for x in a {
                parts.push(to_string_doc(x)?);
            }
            Some(parts.join(","))
        }
        V::Map(m) => {
            if m.len() > 1 {
                return None;
            }
            let mut parts = Vec::new();
            for (k, x) in m {
                parts.push(format!("{}:{}", k, to_string_doc(x)?));
            }
            Some(parts.join(","))
        }
        V::NoneV => Some("none".into()),
        other => other.text(),
    }
}

// ------------------------------------------------------------------------------------------
// generator

pub const VAR_NAMES: [&str; 8] = ["i1", "i2", "d1", "s1", "b1", "arr", "m1", "ro"];
pub const NEW_VARS: [&str; 3] = ["n1", "n2", "e3"];
pub const MEMBER_NAMES: [&str; 4] = ["k", "val", "x2", "e2"];

pub const INT_POOL: [i64; 14] = [0, 1, -1, 2, 3, 7, 10, -5, 100, 4096, i64::MAX, i64::MIN, i64::MAX - 1, 1 << 53];
pub const DBL_POOL: [f64; 9] = [0.5, 1.0, -2.5, 0.0, 3.25, 1e10, 1e308, -1e-7, 2.0];
pub const STR_POOL: [&str; 9] = ["", "a", "ab", "abc", "b", "A", "\u{e9}t\u{e9}", "it's", "q\"t\\n"];

pub fn default_store(t: &mut Tape) -> Store {
    let mut vars = BTreeMap::new();
    vars.insert("i1".to_string(), (V::Int(*t.pick(&INT_POOL)), false));
    vars.insert("i2".to_string(), (V::Int(t.range(-3, 12)), false));
    vars.insert("d1".to_string(), (V::Dbl(*t.pick(&DBL_POOL)), false));
    vars.insert("s1".to_string(), (V::Str(t.pick(&STR_POOL).to_string()), false));
    vars.insert("b1".to_string(), (V::Bool(t.bool()), false));
    let n = t.below(4);
    let mut a = Vec::new();
    for _ in 0..n {
        a.push(gen_scalar_value(t));
    }
    vars.insert("arr".to_string(), (V::Arr(a), false));
    let mut m = BTreeMap::new();
    m.insert("k".to_string(), gen_scalar_value(t));
    if t.bool() {
        m.insert("val".to_string(), V::Arr(vec![V::Int(1), V::Int(2)]));
    }
    if t.bool() {
        let mut inner = BTreeMap::new();
        inner.insert("k".to_string(), V::Int(t.range(0, 9)));
        m.insert("x2".to_string(), V::Map(inner));
    }
    vars.insert("m1".to_string(), (V::Map(m), false));
    vars.insert("ro".to_string(), (V::Int(t.range(0, 50)), true));
    Store { vars }
}

fn gen_scalar_value(t: &mut Tape) -> V {
    match t.below(4) {
        0 => V::Int(t.range(-4, 20)),
        1 => V::Str(t.pick(&STR_POOL).to_string()),
        2 => V::Bool(t.bool()),
        _ => V::Dbl(*t.pick(&DBL_POOL)),
    }
}

pub struct GenCfg {
    pub max_size: usize,
    pub assignments: bool,
}

pub fn gen_expr(t: &mut Tape, cfg: &GenCfg) -> E {
    let mut budget = 2 + t.below(cfg.max_size);
    if cfg.assignments && t.chance(25) {
        let n = 1 + t.below(3);
        let mut v = Vec::new();
        for i in 0..n {
            if i + 1 < n || t.chance(60) {
                v.push(gen_assignment(t, &mut budget, i == 0));
            } else {
                v.push(gen(t, &mut budget, 0));
            }
        }
        if v.len() == 1 {
            v.pop().unwrap()
        } else {
            E::Seq(v)
        }
    } else {
        gen(t, &mut budget, 0)
    }
}

fn gen_assignment(t: &mut Tape, budget: &mut usize, first: bool) -> E {
    let init = t.chance(40);
    let target = if init {
        match t.below(3) {
            0 => E::Var(t.pick(&NEW_VARS).to_string()),
            1 => E::Var(t.pick(&VAR_NAMES).to_string()),
            _ => E::Member(Box::new(E::Var("m1".into())), t.pick(&MEMBER_NAMES).to_string()),
        }
    } else {
        match t.below(if first { 6 } else { 3 }) {
            0 | 1 => E::Var(t.pick(&VAR_NAMES).to_string()),
            2 => E::Var(t.pick(&NEW_VARS).to_string()),
            3 => E::Member(Box::new(E::Var("m1".into())), t.pick(&MEMBER_NAMES).to_string()),
            4 => E::Index(Box::new(E::Var("arr".into())), Box::new(E::Int(t.range(0, 3)))),
            _ => E::Index(Box::new(E::Var("m1".into())), Box::new(E::Str("k".into()))),
        }
    };
    let rhs = if t.chance(60) {
        let ty = *t.pick(&[Ty::Num, Ty::Str, Ty::Bool, Ty::Arr]);
        gen_typed(t, budget, 1, ty)
    } else {
        gen(t, budget, 1)
    };
    if init {
        E::Init(Box::new(target), Box::new(rhs))
    } else {
        E::Assign(Box::new(target), Box::new(rhs))
    }
}

fn gen_leaf(t: &mut Tape) -> E {
    match t.weighted(&[30, 12, 12, 8, 3, 25, 5, 5]) {
        0 => E::Int(if t.chance(25) { *t.pick(&INT_POOL) } else { t.range(-9, 30) }),
        1 => E::Dbl(*t.pick(&DBL_POOL)),
        2 => E::Str(t.pick(&STR_POOL).to_string()),
        3 => E::Bool(t.bool()),
        4 => E::Null,
        5 => E::Var(t.pick(&VAR_NAMES).to_string()),
        6 => E::Var("nosuch".into()),
        _ => E::Arr(vec![]),
    }
}

#[derive(Clone, Copy, PartialEq)]
enum Ty {
    Num,
    Str,
    Bool,
    Arr,
}

/// type-directed generation: mostly well-typed expressions, so that deep operator trees
/// evaluate to values instead of failing at the first type error
fn gen_typed(t: &mut Tape, budget: &mut usize, depth: usize, ty: Ty) -> E {
    if t.chance(12) {
        return gen(t, budget, depth);
    }
    let leaf = *budget <= 1 || depth > 6 || t.chance(30);
    *budget = budget.saturating_sub(1);
    match ty {
        Ty::Num => {
            if leaf {
                match t.below(6) {
                    0 => E::Int(if t.chance(25) { *t.pick(&INT_POOL) } else { t.range(-9, 30) }),
                    1 => E::Dbl(*t.pick(&DBL_POOL)),
                    2 => E::Var("i1".into()),
                    3 => E::Var("i2".into()),
                    4 => E::Var("d1".into()),
                    _ => E::Var("ro".into()),
                }
            } else {
                match t.below(10) {
                    0..=6 => {
                        let op = *t.pick(&[Op::Plus, Op::Minus, Op::Mul, Op::Div, Op::DivColon, Op::Mod, Op::Plus, Op::Minus]);
                        let l = gen_typed(t, budget, depth + 1, Ty::Num);
                        let r = gen_typed(t, budget, depth + 1, Ty::Num);
                        E::Bin(op, Box::new(l), Box::new(r))
                    }
                    7 => E::Call("abs".into(), vec![gen_typed(t, budget, depth + 1, Ty::Num)]),
                    8 => {
                        let ty = if t.bool() { Ty::Str } else { Ty::Arr };
                        E::MCall(Box::new(gen_typed(t, budget, depth + 1, ty)), "length".into(), vec![])
                    }
                    _ => E::Index(Box::new(E::Arr(vec![E::Int(4), E::Int(5), E::Dbl(6.5)])), Box::new(E::Int(t.range(0, 2)))),
                }
            }
        }
        Ty::Str => {
            if leaf {
                match t.below(3) {
                    0 => E::Var("s1".into()),
                    _ => E::Str(t.pick(&STR_POOL).to_string()),
                }
            } else {
                match t.below(4) {
                    0 | 1 => {
                        let l = gen_typed(t, budget, depth + 1, Ty::Str);
                        let ty = if t.chance(70) { Ty::Str } else { Ty::Num };
                        let r = gen_typed(t, budget, depth + 1, ty);
                        E::Bin(Op::Plus, Box::new(l), Box::new(r))
                    }
                    2 => {
                        let ty = if t.bool() { Ty::Num } else { Ty::Arr };
                        E::Call("toString".into(), vec![gen_typed(t, budget, depth + 1, ty)])
                    }
                    _ => E::Index(
                        Box::new(E::Map(vec![(MapKey::B(true), E::Str("yes".into())), (MapKey::B(false), E::Str("no".into()))])),
                        Box::new(gen_typed(t, budget, depth + 1, Ty::Bool)),
                    ),
                }
            }
        }
        Ty::Bool => {
            if leaf {
                match t.below(3) {
                    0 => E::Var("b1".into()),
                    _ => E::Bool(t.bool()),
                }
            } else {
                match t.below(8) {
                    0 | 1 => {
                        let op = *t.pick(&[Op::And, Op::Or]);
                        let l = gen_typed(t, budget, depth + 1, Ty::Bool);
                        let r = gen_typed(t, budget, depth + 1, Ty::Bool);
                        E::Bin(op, Box::new(l), Box::new(r))
                    }
                    2 => E::Not(Box::new(gen_typed(t, budget, depth + 1, Ty::Bool))),
                    3 | 4 => {
                        let op = *t.pick(&[Op::Lt, Op::Le, Op::Gt, Op::Ge]);
                        let ty = if t.chance(75) { Ty::Num } else { Ty::Str };
                        let l = gen_typed(t, budget, depth + 1, ty);
                        let r = gen_typed(t, budget, depth + 1, ty);
                        E::Bin(op, Box::new(l), Box::new(r))
                    }
                    5 | 6 => {
                        let op = *t.pick(&[Op::Eq, Op::Ne]);
                        let ty = *t.pick(&[Ty::Num, Ty::Str, Ty::Bool, Ty::Arr]);
                        let l = gen_typed(t, budget, depth + 1, ty);
                        let r = gen_typed(t, budget, depth + 1, ty);
                        E::Bin(op, Box::new(l), Box::new(r))
                    }
                    _ => E::Call("isDefined".into(), vec![gen(t, budget, depth + 1)]),
                }
            }
        }
        Ty::Arr => {
            if leaf {
                match t.below(3) {
                    0 => E::Var("arr".into()),
                    1 => E::Arr(vec![]),
                    _ => E::Arr(vec![E::Int(t.range(0, 9)), E::Str(t.pick(&STR_POOL).to_string())]),
                }
            } else {
                match t.below(3) {
                    0 => {
                        let n = t.below(4);
                        E::Arr((0..n).map(|_| { let ty = *t.pick(&[Ty::Num, Ty::Str, Ty::Bool, Ty::Arr]); gen_typed(t, budget, depth + 1, ty) }).collect())
                    }
                    _ => {
                        let l = gen_typed(t, budget, depth + 1, Ty::Arr);
                        let ty = *t.pick(&[Ty::Arr, Ty::Num, Ty::Str]);
                        let r = gen_typed(t, budget, depth + 1, ty);
                        E::Bin(Op::Plus, Box::new(l), Box::new(r))
                    }
                }
            }
        }
    }
}

fn gen(t: &mut Tape, budget: &mut usize, depth: usize) -> E {
    if depth == 0 && t.chance(65) {
        let ty = *t.pick(&[Ty::Num, Ty::Num, Ty::Bool, Ty::Str, Ty::Arr]);
        return gen_typed(t, budget, depth, ty);
    }
    if *budget <= 1 || depth > 6 {
        *budget = budget.saturating_sub(1);
        return gen_leaf(t);
    }
    *budget -= 1;
    match t.weighted(&[22, 50, 6, 5, 5, 4, 4, 4]) {
        0 => gen_leaf(t),
        1 => {
            let op = *t.pick(&ALL_OPS);
            let l = gen(t, budget, depth + 1);
            let r = gen(t, budget, depth + 1);
            E::Bin(op, Box::new(l), Box::new(r))
        }
        2 => E::Not(Box::new(gen(t, budget, depth + 1))),
        3 => {
            let n = t.below(4);
            E::Arr((0..n).map(|_| gen(t, budget, depth + 1)).collect())
        }
        4 => {
            let n = t.below(3);
            let mut m = Vec::new();
            for i in 0..n {
                let k = if t.chance(20) { MapKey::B(i == 0) } else { MapKey::S(MEMBER_NAMES[(t.below(4) + i) % 4].to_string()) };
                if m.iter().any(|(kk, _): &(MapKey, E)| kk.key() == k.key()) {
                    continue;
                }
                m.push((k, gen(t, budget, depth + 1)));
            }
            E::Map(m)
        }
        5 => {
            let base = match t.below(4) {
                0 => E::Var("arr".into()),
                1 => E::Var("m1".into()),
                2 => gen(t, budget, depth + 1),
                _ => E::Arr(vec![E::Int(4), E::Int(5), E::Int(6)]),
            };
            let idx = match t.below(4) {
                0 => E::Int(t.range(0, 3)),
                1 => E::Str(t.pick(&MEMBER_NAMES).to_string()),
                _ => gen(t, budget, depth + 1),
            };
            E::Index(Box::new(base), Box::new(idx))
        }
        6 => {
            let base = match t.below(3) {
                0 => E::Var("m1".into()),
                1 => E::Member(Box::new(E::Var("m1".into())), "x2".into()),
                _ => gen(t, budget, depth + 1),
            };
            E::Member(Box::new(base), t.pick(&MEMBER_NAMES).to_string())
        }
        _ => {
            let name = *t.pick(&["abs", "length", "isDefined", "indexOf", "toString", "length", "nosuchfn"]);
            let nargs = if name == "indexOf" { 2 } else { 1 };
            let nargs = if t.chance(8) { t.below(3) } else { nargs };
            let args: Vec<E> = (0..nargs).map(|_| gen(t, budget, depth + 1)).collect();
            if !args.is_empty() && t.bool() {
                let mut it = args.into_iter();
                let b = it.next().unwrap();
                E::MCall(Box::new(b), name.to_string(), it.collect())
            } else {
                E::Call(name.to_string(), args)
            }
        }
    }
}

/// Non-triviality rule of C10 (DESIGN §6): two adjacent binary operators of equal priority that
/// are not both associative-commutative, or Integer/Double mixing, or a saturation edge.
pub fn nontrivial(e: &E) -> bool {
    fn walk(e: &E, found: &mut bool) {
        match e {
            E::Bin(op, l, r) => {
                for c in [l, r] {
                    if let E::Bin(op2, _, _) = &**c {
                        if op2.prio() == op.prio() && !(op == op2 && matches!(op, Op::And | Op::Or)) {
                            *found = true;
                        }
                    }
                }
                let kinds = |x: &E| match x {
                    E::Int(i) => {
                        if *i >= i64::MAX - 1 || *i == i64::MIN {
                            3
                        } else {
                            1
                        }
                    }
                    E::Dbl(_) => 2,
                    _ => 0,
                };
                let (a, b) = (kinds(l), kinds(r));
                if (a == 1 && b == 2) || (a == 2 && b == 1) || a == 3 || b == 3 {
                    *found = true;
                }
                walk(l, found);
                walk(r, found);
            }
            E::Arr(v) | E::Call(_, v) | E::Seq(v) => v.iter().for_each(|x| walk(x, found)),
            E::Map(m) => m.iter().for_each(|(_, x)| walk(x, found)),
            E::Index(a, b) | E::Assign(a, b) | E::Init(a, b) => {
                walk(a, found);
                walk(b, found)
            }
            E::Member(a, _) | E::Not(a) => walk(a, found),
            E::MCall(a, _, v) => {
                walk(a, found);
                v.iter().for_each(|x| walk(x, found))
            }
            _ => {}
        }
    }
    let mut f = false;
    walk(e, &mut f);
    f
}
