//! Driver / worker engine: case loop, process isolation, watchdogs, shrinking, replay,
//! evidence.  See DESIGN.md §1.

use crate::shrink;
use crate::tape::{fnv64, from_hex, random_tape, to_hex};
use serde_json::{json, Map, Value};
use std::collections::{BTreeMap, HashSet};
use std::io::{BufRead, BufReader, Read, Write};
use std::os::unix::io::{AsRawFd, FromRawFd};
use std::process::{Child, Command, Stdio};
use std::sync::atomic::{AtomicBool, Ordering};
use std::sync::{Arc, Mutex};
use std::time::{Duration, Instant};

#[derive(Clone, Copy, PartialEq, Debug)]
pub enum Tier {
    Quick,
    Thorough,
}

impl Tier {
    pub fn name(&self) -> &'static str {
        match self {
            Tier::Quick => "quick",
            Tier::Thorough => "thorough",
        }
    }
}

#[derive(Clone, Debug)]
pub enum Verdict {
    Pass,
    /// Case is outside the property's domain (counted, never a violation).
    Discard(String),
    /// Property violated. `sig` is a stable classification (root-cause key), `detail` is for humans.
    Fail { sig: String, detail: String },
    /// The harness itself could not decide (counted; makes the run inconclusive = exit 2).
    Error(String),
}

pub struct CaseResult {
    pub verdict: Verdict,
    pub nontrivial: bool,
    /// hash of the decoded case (distinctness)
    pub hash: u64,
    pub classes: Vec<String>,
    pub sample: Option<Value>,
    /// how many elementary evaluations this case stands for (default 1)
    pub evaluations: u64,
}

impl CaseResult {
    pub fn pass(hash: u64, nontrivial: bool) -> CaseResult {
        CaseResult { verdict: Verdict::Pass, nontrivial, hash, classes: vec![], sample: None, evaluations: 1 }
    }
    pub fn discard(why: &str) -> CaseResult {
        CaseResult {
            verdict: Verdict::Discard(why.to_string()),
            nontrivial: false,
            hash: 0,
            classes: vec![],
            sample: None,
            evaluations: 1,
        }
    }
    pub fn fail(hash: u64, sig: &str, detail: String) -> CaseResult {
        CaseResult {
            verdict: Verdict::Fail { sig: sig.to_string(), detail },
            nontrivial: true,
            hash,
            classes: vec![],
            sample: None,
            evaluations: 1,
        }
    }
    pub fn error(msg: String) -> CaseResult {
        CaseResult { verdict: Verdict::Error(msg), nontrivial: false, hash: 0, classes: vec![], sample: None, evaluations: 1 }
    }
    pub fn class(mut self, c: &str) -> Self {
        self.classes.push(c.to_string());
        self
    }
    pub fn with_sample(mut self, v: Value) -> Self {
        self.sample = Some(v);
        self
    }
}

#[derive(Clone)]
pub enum PhaseKind {
    /// PRNG tapes of the given length
    Random { tape_len: usize },
    /// tape = case index as 8 bytes little endian (enumerations)
    Indexed,
}

#[derive(Clone)]
pub struct Phase {
    pub name: String,
    pub cases: u64,
    pub kind: PhaseKind,
    pub batch: u64,
    pub watchdog_ms: u64,
    /// true if this phase enumerates a finite space completely
    pub exhaustive: bool,
}

impl Phase {
    pub fn random(name: &str, cases: u64, tape_len: usize) -> Phase {
        Phase { name: name.to_string(), cases, kind: PhaseKind::Random { tape_len }, batch: 50, watchdog_ms: 20_000, exhaustive: false }
    }
    pub fn indexed(name: &str, cases: u64, exhaustive: bool) -> Phase {
        Phase { name: name.to_string(), cases, kind: PhaseKind::Indexed, batch: 200, watchdog_ms: 20_000, exhaustive }
    }
    pub fn batch(mut self, b: u64) -> Phase {
        self.batch = b.max(1);
        self
    }
    pub fn watchdog(mut self, ms: u64) -> Phase {
        self.watchdog_ms = ms;
        self
    }
}

pub trait Check: Send + Sync {
    fn id(&self) -> &'static str;
    fn level(&self) -> &'static str {
        "exploration"
    }
    fn rule(&self) -> String;
    fn assumptions(&self) -> Vec<String> {
        vec![]
    }
    fn phases(&self, tier: Tier) -> Vec<Phase>;
    fn run(&self, phase: usize, tape: &[u8], want_sample: bool) -> CaseResult;
    /// a reproducible stall of a case is itself a violation of the property
    fn hang_is_violation(&self) -> bool {
        false
    }
    /// a reproducible process crash (abort, stack overflow) of a case is a violation
    fn crash_is_violation(&self) -> bool {
        false
    }
    /// below this percentage of non-trivial cases the run is inconclusive (generator broken)
    fn min_nontrivial_pct(&self) -> u32 {
        10
    }
    fn max_workers(&self) -> usize {
        16
    }
    /// called once in each worker process before the first case
    fn worker_init(&self) {}
    /// run the cases on a thread with this stack size (None = the process' main thread).
    /// rFSM evaluates expressions on session threads, which have the std default of 2 MiB.
    fn worker_stack(&self) -> Option<usize> {
        None
    }
    /// human-readable decoding of a case without executing it (used for hang/crash reports)
    fn describe(&self, _phase: usize, _tape: &[u8]) -> String {
        String::new()
    }
    /// shrink budget (evaluations)
    fn shrink_budget(&self, tier: Tier) -> usize {
        match tier {
            Tier::Quick => 300,
            Tier::Thorough => 1500,
        }
    }
}

pub fn verif_dir() -> String {
    std::env::var("VERIF_DIR").unwrap_or_else(|_| "/verif".to_string())
}

// ---------------------------------------------------------------------------------------
// Worker side

static LAST_PANIC: Mutex<String> = Mutex::new(String::new());

/// Set by a check whose last case left threads stuck for good (e.g. a deadlock it reports):
/// the worker process finishes its report and exits, the driver starts a fresh one.
pub static WORKER_TAINTED: AtomicBool = AtomicBool::new(false);

pub fn taint_worker() {
    WORKER_TAINTED.store(true, Ordering::SeqCst);
}

pub fn last_panic() -> String {
    LAST_PANIC.lock().map(|g| g.clone()).unwrap_or_default()
}

pub fn clear_last_panic() {
    if let Ok(mut g) = LAST_PANIC.lock() {
        g.clear();
    }
}

pub fn install_panic_hook() {
    std::panic::set_hook(Box::new(|info| {
        let loc = info.location().map(|l| format!("{}:{}", l.file(), l.line())).unwrap_or_default();
        let msg = if let Some(s) = info.payload().downcast_ref::<&str>() {
            s.to_string()
        } else if let Some(s) = info.payload().downcast_ref::<String>() {
            s.clone()
        } else {
            "?".to_string()
        };
        let th = std::thread::current().name().unwrap_or("?").to_string();
        if let Ok(mut g) = LAST_PANIC.lock() {
            if g.len() < 4000 {
                g.push_str(&format!("[{}] {} @ {}\n", th, msg, loc));
            }
        }
    }));
}

fn result_json(phase: usize, idx: u64, tape: &[u8], r: &CaseResult) -> Value {
    let (kind, sig, detail) = match &r.verdict {
        Verdict::Pass => ("pass", String::new(), String::new()),
        Verdict::Discard(w) => ("discard", w.clone(), String::new()),
        Verdict::Fail { sig, detail } => ("fail", sig.clone(), detail.clone()),
        Verdict::Error(m) => ("error", String::new(), m.clone()),
    };
    json!({"phase": phase, "idx": idx, "tape": to_hex(tape), "kind": kind, "sig": sig, "detail": detail,
           "nontrivial": r.nontrivial, "hash": r.hash, "classes": r.classes, "sample": r.sample, "evaluations": r.evaluations})
}

fn tape_for(check: &dyn Check, seed: u64, phases: &[Phase], phase: usize, idx: u64) -> Vec<u8> {
    match &phases[phase].kind {
        PhaseKind::Random { tape_len } => random_tape(seed, check.id(), phase as u64, idx, *tape_len),
        PhaseKind::Indexed => idx.to_le_bytes().to_vec(),
    }
}

fn run_guarded(check: &dyn Check, phase: usize, tape: &[u8], want_sample: bool) -> CaseResult {
    clear_last_panic();
    let r = std::panic::catch_unwind(std::panic::AssertUnwindSafe(|| check.run(phase, tape, want_sample)));
    match r {
        Ok(r) => r,
        Err(_) => CaseResult::error(format!("harness-level panic: {}", last_panic())),
    }
}

/// Worker main loop.  Commands on stdin, results on the original stdout (dup'ed), while fds 1/2
/// are redirected because rFSM logs with println!.
pub fn worker_main(check: Arc<dyn Check>, tier: Tier, seed: u64) {
    match check.worker_stack() {
        None => worker_loop(check.as_ref(), tier, seed),
        Some(sz) => {
            let c = check.clone();
            let h = std::thread::Builder::new().name("main".into()).stack_size(sz).spawn(move || worker_loop(c.as_ref(), tier, seed)).unwrap();
            let _ = h.join();
        }
    }
}

fn worker_loop(check: &dyn Check, tier: Tier, seed: u64) {
    let res_fd = unsafe { libc::dup(1) };
    let sink = std::env::var("VERIF_WORKER_LOG").unwrap_or_else(|_| "/dev/null".to_string());
    let c = std::ffi::CString::new(sink).unwrap();
    unsafe {
        let fd = libc::open(c.as_ptr(), libc::O_WRONLY | libc::O_CREAT | libc::O_APPEND, 0o644);
        if fd >= 0 {
            libc::dup2(fd, 1);
            libc::dup2(fd, 2);
            libc::close(fd);
        }
        // bound memory so that runaway allocation becomes an attributable abort, not an OOM kill of the box
        let lim = libc::rlimit { rlim_cur: 12u64 << 30, rlim_max: 12u64 << 30 };
        libc::setrlimit(libc::RLIMIT_AS, &lim);
    }
    let mut out = unsafe { std::fs::File::from_raw_fd(res_fd) };
    install_panic_hook();
    check.worker_init();
    let phases = check.phases(tier);
    let stdin = std::io::stdin();
    let mut line = String::new();
    loop {
        line.clear();
        match stdin.lock().read_line(&mut line) {
            Ok(0) | Err(_) => break,
            Ok(_) => {}
        }
        let parts: Vec<&str> = line.split_whitespace().collect();
        if parts.is_empty() {
            continue;
        }
        match parts[0] {
            "B" => {
                let phase: usize = parts[1].parse().unwrap();
                let start: u64 = parts[2].parse().unwrap();
                let count: u64 = parts[3].parse().unwrap();
                let nsamples: u64 = parts[4].parse().unwrap();
                let mut n = 0u64;
                let mut evals = 0u64;
                let mut discards = 0u64;
                let mut hashes: Vec<u64> = Vec::new();
                let mut classes: BTreeMap<String, u64> = BTreeMap::new();
                let mut samples: Vec<Value> = Vec::new();
                let mut fails: Vec<Value> = Vec::new();
                let mut errors: Vec<Value> = Vec::new();
                for idx in start..start + count {
                    let _ = writeln!(out, "S {} {}", phase, idx);
                    let tape = tape_for(check, seed, &phases, phase, idx);
                    let want = (samples.len() as u64) < nsamples;
                    let r = run_guarded(check, phase, &tape, want);
                    n += 1;
                    evals += r.evaluations;
                    for c in &r.classes {
                        *classes.entry(c.clone()).or_insert(0) += 1;
                    }
                    match &r.verdict {
                        Verdict::Pass => {
                            if r.nontrivial {
                                hashes.push(r.hash);
                            }
                            if want {
                                if let Some(s) = &r.sample {
                                    if r.nontrivial || samples.is_empty() {
                                        samples.push(s.clone());
                                    }
                                }
                            }
                        }
                        Verdict::Discard(w) => {
                            discards += 1;
                            *classes.entry(format!("discard:{}", w)).or_insert(0) += 1;
                        }
                        Verdict::Fail { .. } => {
                            if fails.len() < 20 {
                                fails.push(result_json(phase, idx, &tape, &r));
                            }
                        }
                        Verdict::Error(_) => {
                            if errors.len() < 5 {
                                errors.push(result_json(phase, idx, &tape, &r));
                            }
                        }
                    }
                    if WORKER_TAINTED.load(Ordering::SeqCst) {
                        break;
                    }
                }
                let tainted = WORKER_TAINTED.load(Ordering::SeqCst);
                let v = json!({"n": n, "evaluations": evals, "discards": discards, "hashes": hashes, "classes": classes,
                               "samples": samples, "fails": fails, "errors": errors, "next": start + n, "tainted": tainted});
                let _ = writeln!(out, "R {}", v);
                if tainted {
                    // threads of the last case are stuck for good (deadlock): this process is not reused
                    let _ = out.flush();
                    unsafe { libc::_exit(0) }
                }
            }
            "T" => {
                let phase: usize = parts[1].parse().unwrap();
                let tape = from_hex(parts.get(2).copied().unwrap_or(""));
                let _ = writeln!(out, "S {} 0", phase);
                let r = run_guarded(check, phase, &tape, true);
                let mut v = result_json(phase, 0, &tape, &r);
                let tainted = WORKER_TAINTED.load(Ordering::SeqCst);
                v["tainted"] = json!(tainted);
                let _ = writeln!(out, "R {}", v);
                if tainted {
                    let _ = out.flush();
                    unsafe { libc::_exit(0) }
                }
            }
            "Q" => break,
            _ => {}
        }
    }
    // Threads of rFSM sessions may still be alive; leave without running destructors.
    unsafe { libc::_exit(0) }
}

// ---------------------------------------------------------------------------------------
// Driver side

struct Worker {
    child: Child,
    reader: BufReader<std::process::ChildStdout>,
}

enum Reply {
    Line(String),
    Timeout,
    Dead(String),
}

impl Worker {
    fn spawn(id: &str, tier: Tier, seed: u64) -> Worker {
        let exe = std::env::current_exe().expect("current_exe");
        let mut child = Command::new(exe)
            .arg(id)
            .arg("--worker")
            .arg("--tier")
            .arg(tier.name())
            .arg("--seed")
            .arg(seed.to_string())
            .env("RUST_BACKTRACE", "0")
            .stdin(Stdio::piped())
            .stdout(Stdio::piped())
            .stderr(Stdio::null())
            .spawn()
            .expect("spawn worker");
        let stdout = child.stdout.take().unwrap();
        Worker { child, reader: BufReader::new(stdout) }
    }

    fn send(&mut self, cmd: &str) -> bool {
        if let Some(stdin) = self.child.stdin.as_mut() {
            stdin.write_all(cmd.as_bytes()).is_ok() && stdin.flush().is_ok()
        } else {
            false
        }
    }

    /// Read one line, waiting at most `timeout`.
    fn read_line(&mut self, timeout: Duration) -> Reply {
        if self.reader.buffer().is_empty() {
            let fd = self.reader.get_ref().as_raw_fd();
            let mut pfd = libc::pollfd { fd, events: libc::POLLIN, revents: 0 };
            let ms = timeout.as_millis().min(i32::MAX as u128) as i32;
            let rc = unsafe { libc::poll(&mut pfd, 1, ms) };
            if rc == 0 {
                return Reply::Timeout;
            }
            if rc < 0 {
                return Reply::Dead("poll error".to_string());
            }
        }
        let mut line = String::new();
        match self.reader.read_line(&mut line) {
            Ok(0) => {
                let st = self.child.wait().map(|s| format!("{}", s)).unwrap_or_else(|e| e.to_string());
                Reply::Dead(st)
            }
            Ok(_) => Reply::Line(line),
            Err(e) => Reply::Dead(e.to_string()),
        }
    }

    fn kill(&mut self) {
        let _ = self.child.kill();
        let _ = self.child.wait();
    }
}

#[derive(Clone, Debug)]
struct Incident {
    kind: String, // "hang" | "crash"
    phase: usize,
    idx: u64,
    info: String,
}

#[derive(Default)]
struct Agg {
    n: u64,
    evaluations: u64,
    discards: u64,
    hashes: HashSet<u64>,
    classes: BTreeMap<String, u64>,
    samples: Vec<Value>,
    fails: Vec<Value>,
    errors: Vec<Value>,
    incidents: Vec<Incident>,
    /// signatures of the open known findings of this property: their hits are counted, one example each is kept,
    /// and they never use up the room (or the early stop) meant for unknown failures
    known_sigs: Vec<String>,
    known_hits: BTreeMap<String, u64>,
    unknown_fails: usize,
}

impl Agg {
    fn merge(&mut self, v: &Value) {
        self.n += v["n"].as_u64().unwrap_or(0);
        self.evaluations += v["evaluations"].as_u64().unwrap_or(0);
        self.discards += v["discards"].as_u64().unwrap_or(0);
        if let Some(a) = v["hashes"].as_array() {
            for h in a {
                if let Some(h) = h.as_u64() {
                    self.hashes.insert(h);
                }
            }
        }
        if let Some(m) = v["classes"].as_object() {
            for (k, c) in m {
                *self.classes.entry(k.clone()).or_insert(0) += c.as_u64().unwrap_or(0);
            }
        }
        if let Some(a) = v["samples"].as_array() {
            for s in a {
                if self.samples.len() < 5 {
                    self.samples.push(s.clone());
                }
            }
        }
        if let Some(a) = v["fails"].as_array() {
            for s in a {
                let sig = s["sig"].as_str().unwrap_or("").to_string();
                if self.known_sigs.contains(&sig) {
                    let n = self.known_hits.entry(sig).or_insert(0);
                    *n += 1;
                    if *n == 1 {
                        self.fails.push(s.clone());
                    }
                } else if self.unknown_fails < 200 {
                    self.unknown_fails += 1;
                    self.fails.push(s.clone());
                }
            }
        }
        if let Some(a) = v["errors"].as_array() {
            for s in a {
                if self.errors.len() < 20 {
                    self.errors.push(s.clone());
                }
            }
        }
    }
}

/// Evaluate one tape in an isolated worker; respawns the worker on hang/crash.
struct OneShot<'a> {
    id: &'a str,
    tier: Tier,
    seed: u64,
    worker: Option<Worker>,
}

enum OneResult {
    Done(Value),
    Hang,
    Crash(String),
}

impl<'a> OneShot<'a> {
    fn new(id: &'a str, tier: Tier, seed: u64) -> OneShot<'a> {
        OneShot { id, tier, seed, worker: None }
    }
    fn eval(&mut self, phase: usize, tape: &[u8], timeout: Duration) -> OneResult {
        if self.worker.is_none() {
            self.worker = Some(Worker::spawn(self.id, self.tier, self.seed));
        }
        let cmd = format!("T {} {}\n", phase, to_hex(tape));
        if !self.worker.as_mut().unwrap().send(&cmd) {
            // the worker may have retired itself (tainted) - retry once on a fresh one
            self.worker.as_mut().unwrap().kill();
            self.worker = Some(Worker::spawn(self.id, self.tier, self.seed));
            if !self.worker.as_mut().unwrap().send(&cmd) {
                self.worker.as_mut().unwrap().kill();
                self.worker = None;
                return OneResult::Crash("cannot send".to_string());
            }
        }
        let w = self.worker.as_mut().unwrap();
        let deadline = Instant::now() + timeout;
        loop {
            let left = deadline.saturating_duration_since(Instant::now());
            match w.read_line(left) {
                Reply::Line(l) => {
                    if let Some(rest) = l.strip_prefix("R ") {
                        match serde_json::from_str::<Value>(rest) {
                            Ok(v) => {
                                if v["tainted"].as_bool().unwrap_or(false) {
                                    w.kill();
                                    self.worker = None;
                                }
                                return OneResult::Done(v);
                            }
                            Err(e) => return OneResult::Crash(format!("bad reply {}", e)),
                        }
                    }
                }
                Reply::Timeout => {
                    w.kill();
                    self.worker = None;
                    return OneResult::Hang;
                }
                Reply::Dead(st) => {
                    self.worker = None;
                    return OneResult::Crash(st);
                }
            }
        }
    }
    fn close(&mut self) {
        if let Some(mut w) = self.worker.take() {
            let _ = w.send("Q\n");
            w.kill();
        }
    }
}

pub struct RunConfig {
    pub tier: Tier,
    pub seed: u64,
    pub jobs: usize,
    pub cases_override: Option<u64>,
    pub replay: Option<String>,
    pub no_replay_tier: bool,
}

fn load_known_findings() -> Vec<Value> {
    let p = format!("{}/known_findings.json", verif_dir());
    match std::fs::read_to_string(&p) {
        Ok(s) => serde_json::from_str::<Value>(&s).ok().and_then(|v| v["findings"].as_array().cloned()).unwrap_or_default(),
        Err(_) => vec![],
    }
}

fn known_open(findings: &[Value], id: &str, sig: &str) -> Option<String> {
    for f in findings {
        if f["property"].as_str() == Some(id) && f["status"].as_str() == Some("open") {
            if let Some(s) = f["signature"].as_str() {
                if s == sig {
                    return Some(f["what"].as_str().unwrap_or("").to_string());
                }
            }
        }
    }
    None
}

fn write_replay(id: &str, dir: &str, phase: usize, phase_name: &str, seed: u64, tape: &[u8], res: &Value) -> String {
    let d = format!("{}/{}/{}", verif_dir(), dir, id);
    let _ = std::fs::create_dir_all(&d);
    let h = fnv64(format!("{}:{}", phase, to_hex(tape)).as_bytes());
    let path = format!("{}/{:016x}.json", d, h);
    let v = json!({"property": id, "phase": phase, "phase_name": phase_name, "seed": seed, "tape_hex": to_hex(tape),
                   "classification": res["sig"], "observed": res["detail"], "decoded_case": res["sample"]});
    let _ = std::fs::write(&path, serde_json::to_string_pretty(&v).unwrap());
    path
}

/// Run the committed regression inputs of this property. Each must pass.
fn replay_tier(check: &dyn Check, cfg: &RunConfig, findings: &[Value], violations: &mut Vec<String>, known: &mut BTreeMap<String, String>, inconclusive: &mut Vec<String>) -> u64 {
    let d = format!("{}/replays/{}", verif_dir(), check.id());
    let mut n = 0;
    let mut files: Vec<_> = match std::fs::read_dir(&d) {
        Ok(rd) => rd.filter_map(|e| e.ok()).map(|e| e.path()).filter(|p| p.extension().map(|x| x == "json").unwrap_or(false)).collect(),
        Err(_) => return 0,
    };
    files.sort();
    let phases = check.phases(cfg.tier);
    let mut one = OneShot::new(check.id(), cfg.tier, cfg.seed);
    for f in files {
        let Ok(s) = std::fs::read_to_string(&f) else { continue };
        let Ok(v) = serde_json::from_str::<Value>(&s) else { continue };
        let phase = v["phase"].as_u64().unwrap_or(0) as usize;
        if phase >= phases.len() {
            continue;
        }
        let tape = from_hex(v["tape_hex"].as_str().unwrap_or(""));
        n += 1;
        let to = Duration::from_millis(phases[phase].watchdog_ms);
        let path = f.to_string_lossy().to_string();
        match one.eval(phase, &tape, to) {
            OneResult::Done(r) => match r["kind"].as_str().unwrap_or("") {
                "fail" => {
                    let sig = r["sig"].as_str().unwrap_or("");
                    if let Some(what) = known_open(findings, check.id(), sig) {
                        known.insert(sig.to_string(), what);
                    } else {
                        println!("replay {} FAILS: {} :: {}", path, sig, r["detail"].as_str().unwrap_or(""));
                        violations.push(path);
                    }
                }
                "error" => inconclusive.push(format!("replay {}: {}", path, r["detail"])),
                _ => {}
            },
            OneResult::Hang => {
                if check.hang_is_violation() {
                    if let Some(what) = known_open(findings, check.id(), "hang") {
                        known.insert("hang".to_string(), what);
                    } else {
                        println!("replay {} HANGS", path);
                        violations.push(path);
                    }
                } else {
                    inconclusive.push(format!("replay {} hangs", path));
                }
            }
            OneResult::Crash(st) => {
                if check.crash_is_violation() {
                    println!("replay {} CRASHES ({})", path, st);
                    violations.push(path);
                } else {
                    inconclusive.push(format!("replay {} crashes: {}", path, st));
                }
            }
        }
    }
    one.close();
    n
}

pub fn driver_main(check: Arc<dyn Check>, cfg: RunConfig) -> i32 {
    let t0 = Instant::now();
    let id = check.id();
    let findings = load_known_findings();

    // ---- single replay ----
    if let Some(path) = &cfg.replay {
        let s = std::fs::read_to_string(path).expect("read replay file");
        let v: Value = serde_json::from_str(&s).expect("parse replay file");
        let phase = v["phase"].as_u64().unwrap_or(0) as usize;
        let tape = from_hex(v["tape_hex"].as_str().unwrap_or(""));
        let phases = check.phases(cfg.tier);
        let to = Duration::from_millis(phases.get(phase).map(|p| p.watchdog_ms).unwrap_or(20000));
        let mut one = OneShot::new(id, cfg.tier, cfg.seed);
        let r = one.eval(phase, &tape, to);
        one.close();
        return match r {
            OneResult::Done(r) => {
                println!("{}", serde_json::to_string_pretty(&r).unwrap());
                if r["kind"] == "fail" {
                    println!("VIOLATION property={} replay={}", id, path);
                    1
                } else if r["kind"] == "error" {
                    2
                } else {
                    0
                }
            }
            OneResult::Hang => {
                println!("case hangs (watchdog {:?})", to);
                if check.hang_is_violation() {
                    println!("VIOLATION property={} replay={}", id, path);
                    1
                } else {
                    2
                }
            }
            OneResult::Crash(st) => {
                println!("worker crashed: {}", st);
                if check.crash_is_violation() {
                    println!("VIOLATION property={} replay={}", id, path);
                    1
                } else {
                    2
                }
            }
        };
    }

    let mut violations: Vec<String> = Vec::new();
    let mut known: BTreeMap<String, String> = BTreeMap::new();
    let mut inconclusive: Vec<String> = Vec::new();

    // ---- replay tier ----
    let replayed = if cfg.no_replay_tier { 0 } else { replay_tier(check.as_ref(), &cfg, &findings, &mut violations, &mut known, &mut inconclusive) };

    // ---- generated phases ----
    let mut phases = check.phases(cfg.tier);
    if let Some(ms) = std::env::var("VERIF_WATCHDOG_MS").ok().and_then(|s| s.parse::<u64>().ok()) {
        for p in phases.iter_mut() {
            p.watchdog_ms = ms;
        }
    }
    if let Some(c) = cfg.cases_override {
        for p in phases.iter_mut() {
            if let PhaseKind::Random { .. } = p.kind {
                p.cases = c;
            }
        }
    }
    // work queue of batches
    let mut queue: Vec<(usize, u64, u64)> = Vec::new();
    for (pi, p) in phases.iter().enumerate() {
        let mut s = 0;
        while s < p.cases {
            let c = p.batch.min(p.cases - s);
            queue.push((pi, s, c));
            s += c;
        }
    }
    queue.reverse();
    let queue = Arc::new(Mutex::new(queue));
    let agg = Arc::new(Mutex::new(Agg {
        known_sigs: findings.iter().filter(|f| f["property"].as_str() == Some(id) && f["status"].as_str() == Some("open")).filter_map(|f| f["signature"].as_str().map(|x| x.to_string())).collect(),
        ..Agg::default()
    }));
    let jobs = cfg.jobs.min(check.max_workers()).max(1);
    let stop = Arc::new(AtomicBool::new(false));
    let mut handles = Vec::new();
    // hangs/crashes that cannot be violations only make the run inconclusive: do not collect many
    let incident_cap: usize = if check.hang_is_violation() || check.crash_is_violation() { 12 } else { 3 };
    for _w in 0..jobs {
        let queue = queue.clone();
        let agg = agg.clone();
        let phases = phases.clone();
        let stop = stop.clone();
        let tier = cfg.tier;
        let seed = cfg.seed;
        let idc = id.to_string();
        handles.push(std::thread::spawn(move || {
            let mut worker: Option<Worker> = None;
            loop {
                if stop.load(Ordering::Relaxed) {
                    break;
                }
                let job = queue.lock().unwrap().pop();
                let Some((pi, start, count)) = job else { break };
                if worker.is_none() {
                    worker = Some(Worker::spawn(&idc, tier, seed));
                }
                let w = worker.as_mut().unwrap();
                let want_samples = if agg.lock().unwrap().samples.len() < 5 { 1 } else { 0 };
                if !w.send(&format!("B {} {} {} {}\n", pi, start, count, want_samples)) {
                    w.kill();
                    worker = None;
                    queue.lock().unwrap().push((pi, start, count));
                    continue;
                }
                let mut last: Option<u64> = None;
                let mut drop_worker = false;
                let wd = Duration::from_millis(phases[pi].watchdog_ms);
                loop {
                    match w.read_line(wd) {
                        Reply::Line(l) => {
                            if let Some(rest) = l.strip_prefix("S ") {
                                let mut it = rest.split_whitespace();
                                let _p = it.next();
                                last = it.next().and_then(|x| x.parse().ok());
                            } else if let Some(rest) = l.strip_prefix("R ") {
                                if let Ok(v) = serde_json::from_str::<Value>(rest) {
                                    {
                                        let mut a = agg.lock().unwrap();
                                        a.merge(&v);
                                        // failures beyond 200 are not even recorded: searching on only costs time
                                        if a.unknown_fails >= 200 {
                                            stop.store(true, Ordering::Relaxed);
                                        }
                                    }
                                    // a tainted worker stops its batch early and exits
                                    let next = v["next"].as_u64().unwrap_or(start + count);
                                    if next < start + count {
                                        queue.lock().unwrap().push((pi, next, start + count - next));
                                    }
                                    if v["tainted"].as_bool() == Some(true) {
                                        drop_worker = true;
                                    }
                                }
                                break;
                            }
                        }
                        other => {
                            let (kind, info) = match other {
                                Reply::Timeout => ("hang", String::new()),
                                Reply::Dead(st) => ("crash", st),
                                _ => unreachable!(),
                            };
                            w.kill();
                            worker = None;
                            let bad = last.unwrap_or(start);
                            {
                                let mut a = agg.lock().unwrap();
                                // cases before `bad` in this batch were executed but their statistics are lost; count them
                                a.n += bad - start;
                                a.incidents.push(Incident { kind: kind.to_string(), phase: pi, idx: bad, info });
                                if a.incidents.len() > incident_cap {
                                    stop.store(true, Ordering::Relaxed);
                                }
                            }
                            let next = bad + 1;
                            if next < start + count {
                                queue.lock().unwrap().push((pi, next, start + count - next));
                            }
                            break;
                        }
                    }
                }
                if drop_worker {
                    if let Some(mut w) = worker.take() {
                        w.kill();
                    }
                }
            }
            if let Some(mut w) = worker.take() {
                let _ = w.send("Q\n");
                let _ = w.child.wait();
            }
        }));
    }
    for h in handles {
        let _ = h.join();
    }
    let mut agg = std::mem::take(&mut *agg.lock().unwrap());

    // ---- confirm incidents (hangs / crashes) alone, in a fresh worker ----
    let mut confirmed_fail: Vec<Value> = Vec::new();
    {
        let mut seen: HashSet<String> = HashSet::new();
        let incidents = agg.incidents.clone();
        let mut done = 0;
        let mut cheap_reruns = 0;
        for inc in incidents.iter() {
            if done >= 6 {
                break;
            }
            let tape = tape_for(check.as_ref(), cfg.seed, &phases, inc.phase, inc.idx);
            // where a hang/crash cannot be a violation the re-run only looks for a regular verdict: once, briefly
            let can_violate = (inc.kind == "hang" && check.hang_is_violation()) || (inc.kind == "crash" && check.crash_is_violation());
            if !can_violate {
                cheap_reruns += 1;
                if cheap_reruns > 2 {
                    inconclusive.push(format!("{} at phase {} idx {} ({}) not re-run; not a property violation by itself", inc.kind, inc.phase, inc.idx, inc.info));
                    continue;
                }
            }
            let to = Duration::from_millis(phases[inc.phase].watchdog_ms * if can_violate { 3 } else { 1 });
            let mut one = OneShot::new(id, cfg.tier, cfg.seed);
            let mut same = 0;
            let mut other_result: Option<Value> = None;
            for _ in 0..(if can_violate { 3 } else { 1 }) {
                match one.eval(inc.phase, &tape, to) {
                    OneResult::Hang if inc.kind == "hang" => same += 1,
                    OneResult::Crash(_) if inc.kind == "crash" => same += 1,
                    OneResult::Done(v) => {
                        other_result = Some(v);
                        break;
                    }
                    _ => {}
                }
            }
            one.close();
            let is_violation = (inc.kind == "hang" && check.hang_is_violation()) || (inc.kind == "crash" && check.crash_is_violation());
            if same == 3 && is_violation {
                let sig = inc.kind.clone();
                if seen.insert(format!("{}:{}", sig, inc.phase)) {
                    confirmed_fail.push(json!({"phase": inc.phase, "idx": inc.idx, "tape": to_hex(&tape), "kind": "fail", "sig": sig,
                        "detail": format!("{} reproduced 3/3 alone with 3x watchdog ({})", inc.kind, inc.info), "sample": Value::Null}));
                    done += 1;
                }
            } else if let Some(v) = other_result {
                // did not reproduce as hang/crash: take the regular result
                if v["kind"] == "fail" {
                    agg.fails.push(v);
                } else if v["kind"] == "error" {
                    agg.errors.push(v);
                } else {
                    // transient (machine load): the case passes when re-run alone; counted, not alarmed
                    *agg.classes.entry(format!("transient_{}_passed_on_rerun", inc.kind)).or_insert(0) += 1;
                }
            } else {
                inconclusive.push(format!("{} at phase {} idx {} ({}) reproduced {}/3; not a property violation by itself", inc.kind, inc.phase, inc.idx, inc.info, same));
            }
        }
    }

    // ---- classify failures, shrink one representative per signature ----
    let mut by_sig: BTreeMap<String, Vec<Value>> = BTreeMap::new();
    for f in agg.fails.iter().chain(confirmed_fail.iter()) {
        by_sig.entry(f["sig"].as_str().unwrap_or("").to_string()).or_default().push(f.clone());
    }
    let mut unknown_sigs = 0;
    for (sig, fs) in by_sig.iter() {
        if let Some(what) = known_open(&findings, id, sig) {
            known.insert(sig.clone(), what);
            continue;
        }
        unknown_sigs += 1;
        if unknown_sigs > 4 {
            println!("(further failure class not minimised) {} x{}", sig, fs.len());
            continue;
        }
        // smallest tape first
        let mut f = fs[0].clone();
        for c in fs {
            if c["tape"].as_str().map(|s| s.len()).unwrap_or(0) < f["tape"].as_str().map(|s| s.len()).unwrap_or(0) {
                f = c.clone();
            }
        }
        let phase = f["phase"].as_u64().unwrap_or(0) as usize;
        let tape = from_hex(f["tape"].as_str().unwrap_or(""));
        let wd = Duration::from_millis(phases[phase].watchdog_ms);
        let is_hang = sig == "hang";
        let is_crash = sig == "crash";
        let mut one = OneShot::new(id, cfg.tier, cfg.seed);
        let mut best = f.clone();
        let budget = if is_hang { 40 } else { check.shrink_budget(cfg.tier) };
        let (min_tape, evals) = if matches!(phases[phase].kind, PhaseKind::Indexed) {
            (tape.clone(), 0)
        } else {
            shrink::shrink(&tape, budget, |cand| match one.eval(phase, cand, if is_hang { wd.min(Duration::from_secs(5)) } else { wd }) {
                OneResult::Done(v) => {
                    if !is_hang && !is_crash && v["kind"] == "fail" && v["sig"].as_str() == Some(sig.as_str()) {
                        best = v;
                        true
                    } else {
                        false
                    }
                }
                OneResult::Hang => is_hang,
                OneResult::Crash(_) => is_crash,
            })
        };
        one.close();
        if is_hang || is_crash {
            best["tape"] = json!(to_hex(&min_tape));
            best["detail"] = json!(format!("{} (3/3 alone); minimal case: {}", sig, check.describe(phase, &min_tape)));
            best["sample"] = json!(check.describe(phase, &min_tape));
        }
        let path = write_replay(id, "work/violations", phase, &phases[phase].name, cfg.seed, &min_tape, &best);
        println!("failure class '{}' ({} case(s)); minimised in {} evaluations: {}", sig, fs.len(), evals, best["detail"].as_str().unwrap_or(""));
        violations.push(path);
    }

    // ---- non-triviality floor ----
    let effective = agg.n.saturating_sub(agg.discards);
    let nontrivial = agg.hashes.len() as u64;
    if effective > 0 {
        let pct = nontrivial * 100 / effective.max(1);
        if (pct as u32) < check.min_nontrivial_pct() && violations.is_empty() {
            inconclusive.push(format!("only {}% of {} cases were distinct and non-trivial (floor {}%)", pct, effective, check.min_nontrivial_pct()));
        }
    } else if violations.is_empty() {
        inconclusive.push("no case was evaluated".to_string());
    }
    if agg.discards * 100 > agg.n.max(1) * 30 {
        inconclusive.push(format!("{} of {} cases discarded (> 30%)", agg.discards, agg.n));
    }
    for e in agg.errors.iter().take(3) {
        inconclusive.push(format!("harness error at phase {} idx {}: {}", e["phase"], e["idx"], e["detail"].as_str().unwrap_or("")));
    }

    // ---- evidence ----
    let total_expected: u64 = phases.iter().map(|p| p.cases).sum();
    let exhaustive = !phases.is_empty() && phases.iter().any(|p| p.exhaustive) && agg.n >= total_expected;
    let mut cov = Map::new();
    cov.insert("evaluations".into(), json!(agg.evaluations.max(agg.n)));
    cov.insert("cases".into(), json!(agg.n));
    cov.insert("distinct_nontrivial".into(), json!(nontrivial));
    cov.insert("rule".into(), json!(check.rule()));
    cov.insert("samples".into(), json!(agg.samples));
    cov.insert("discarded".into(), json!(agg.discards));
    cov.insert("replayed_regression_inputs".into(), json!(replayed));
    cov.insert("classes".into(), json!(agg.classes));
    cov.insert("phases".into(), json!(phases.iter().map(|p| json!({"name": p.name, "cases": p.cases, "exhaustive": p.exhaustive})).collect::<Vec<_>>()));
    cov.insert("exhaustive".into(), json!(exhaustive));
    cov.insert("known_findings_hit".into(), json!(known.keys().collect::<Vec<_>>()));
    cov.insert("hang_or_crash_incidents".into(), json!(agg.incidents.len()));
    cov.insert("inconclusive".into(), json!(inconclusive));
    let ev = json!({
        "property_id": id,
        "tier": cfg.tier.name(),
        "seed": cfg.seed,
        "level": check.level(),
        "coverage": Value::Object(cov),
        "assumptions": check.assumptions(),
        "wall_s": t0.elapsed().as_secs_f64(),
        "violations": violations.len(),
    });
    // (self-tests against mutated trees write their evidence elsewhere)
    let evdir = std::env::var("VERIF_EVIDENCE_DIR").unwrap_or_else(|_| format!("{}/evidence", verif_dir()));
    let _ = std::fs::create_dir_all(&evdir);
    let _ = std::fs::write(format!("{}/{}.json", evdir, id), serde_json::to_string_pretty(&ev).unwrap());

    // ---- report ----
    println!(
        "{} tier={} seed={} cases={} evaluations={} nontrivial_distinct={} discarded={} replayed={} wall={:.1}s",
        id,
        cfg.tier.name(),
        cfg.seed,
        agg.n,
        agg.evaluations.max(agg.n),
        nontrivial,
        agg.discards,
        replayed,
        t0.elapsed().as_secs_f64()
    );
    for (k, v) in agg.classes.iter() {
        println!("  class {:40} {}", k, v);
    }
    for (sig, what) in known.iter() {
        println!("KNOWN-FINDING: property={} {} [{}]", id, what, sig);
    }
    for m in inconclusive.iter() {
        println!("INCONCLUSIVE: {}", m);
    }
    if !violations.is_empty() {
        for p in violations.iter() {
            println!("VIOLATION property={} replay={}", id, p);
        }
        return 1;
    }
    if !inconclusive.is_empty() {
        return 2;
    }
    0
}

/// Helper for checks: stable 64-bit hash of a string.
pub fn hash_str(s: &str) -> u64 {
    fnv64(s.as_bytes())
}

#[allow(dead_code)]
fn _unused(_r: &mut dyn Read) {}
