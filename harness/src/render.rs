//! Rendering of the document AST to SCXML text (canonical form; lexical variation is added by
//! the C04 check through `RenderOpts`).

use crate::doc::*;

pub fn xml_escape_attr(s: &str) -> String {
    let mut o = String::new();
    for c in s.chars() {
        match c {
            '&' => o.push_str("&amp;"),
            '<' => o.push_str("&lt;"),
            '>' => o.push_str("&gt;"),
            '"' => o.push_str("&quot;"),
            '\'' => o.push_str("&apos;"),
            c => o.push(c),
        }
    }
    o
}

/// Expression source in the given data model's syntax.
pub fn expr_src(x: &X, dm: DM) -> String {
    fn q(s: &str) -> String {
        format!("'{}'", s.replace('\\', "\\\\").replace('\'', "\\u0027"))
    }
    fn go(x: &X, dm: DM, top: bool) -> String {
        let s = match x {
            X::Int(i) => return i.to_string(),
            X::Bool(b) => return b.to_string(),
            X::Str(s) => return q(s),
            X::Var(v) => return v.clone(),
            X::In(s) => return format!("In({})", q(s)),
            X::EventName => return "_event.name".to_string(),
            X::IntArr(a) => return format!("[{}]", a.iter().map(|i| i.to_string()).collect::<Vec<_>>().join(",")),
            X::Bad(s) => return s.clone(),
            X::Not(a) => return format!("!({})", go(a, dm, true)),
            X::And(a, b) => format!("{} {} {}", go(a, dm, false), if dm == DM::Ecma { "&&" } else { "&" }, go(b, dm, false)),
            X::Or(a, b) => format!("{} {} {}", go(a, dm, false), if dm == DM::Ecma { "||" } else { "|" }, go(b, dm, false)),
            X::Eq(a, b) => format!("{} == {}", go(a, dm, false), go(b, dm, false)),
            X::Lt(a, b) => format!("{} < {}", go(a, dm, false), go(b, dm, false)),
            X::Add(a, b) => format!("{} + {}", go(a, dm, false), go(b, dm, false)),
        };
        if top {
            s
        } else {
            format!("({})", s)
        }
    }
    go(x, dm, true)
}

pub struct Out {
    pub s: String,
    pub dm: DM,
}

impl Out {
    fn line(&mut self, ind: usize, text: &str) {
        for _ in 0..ind {
            self.s.push_str("  ");
        }
        self.s.push_str(text);
        self.s.push('\n');
    }
    fn attr(&self, x: &X) -> String {
        xml_escape_attr(&expr_src(x, self.dm))
    }
}

pub fn render_content(o: &mut Out, ind: usize, c: &C) {
    match c {
        C::Mark { tag, args } => {
            let mut a = vec![format!("'{}'", tag)];
            for x in args {
                a.push(expr_src(x, o.dm));
            }
            // script text is taken as a raw span by the reader: no markup-significant characters in it
            o.line(ind, &format!("<script>mark({})</script>", a.join(", ")));
        }
        C::Raise(e) => o.line(ind, &format!("<raise event=\"{}\"/>", e)),
        C::SendInternal(e) => o.line(ind, &format!("<send event=\"{}\" target=\"#_internal\"/>", e)),
        C::SendSelf(e) => o.line(ind, &format!("<send event=\"{}\"/>", e)),
        C::Assign { var, expr } => o.line(ind, &format!("<assign location=\"{}\" expr=\"{}\"/>", var, o.attr(expr))),
        C::If { branches, els } => {
            for (i, (cond, body)) in branches.iter().enumerate() {
                if i == 0 {
                    o.line(ind, &format!("<if cond=\"{}\">", o.attr(cond)));
                } else {
                    o.line(ind, &format!("<elseif cond=\"{}\"/>", o.attr(cond)));
                }
                for b in body {
                    render_content(o, ind + 1, b);
                }
            }
            if let Some(e) = els {
                o.line(ind, "<else/>");
                for b in e {
                    render_content(o, ind + 1, b);
                }
            }
            o.line(ind, "</if>");
        }
        C::ForEach { array, item, index, body } => {
            let idx = index.as_ref().map(|i| format!(" index=\"{}\"", i)).unwrap_or_default();
            o.line(ind, &format!("<foreach array=\"{}\" item=\"{}\"{}>", o.attr(array), item, idx));
            for b in body {
                render_content(o, ind + 1, b);
            }
            o.line(ind, "</foreach>");
        }
        C::Log(x) => o.line(ind, &format!("<log expr=\"{}\"/>", o.attr(x))),
        C::Script(x) => o.line(ind, &format!("<script>{}</script>", expr_src(x, o.dm))),
    }
}

fn render_data(o: &mut Out, ind: usize, data: &[DataDecl]) {
    if data.is_empty() {
        return;
    }
    o.line(ind, "<datamodel>");
    for d in data {
        match &d.expr {
            Some(x) => o.line(ind + 1, &format!("<data id=\"{}\" expr=\"{}\"/>", d.id, o.attr(x))),
            None => o.line(ind + 1, &format!("<data id=\"{}\"/>", d.id)),
        }
    }
    o.line(ind, "</datamodel>");
}

fn render_transition(o: &mut Out, ind: usize, t: &Trans) {
    let mut a = String::new();
    if !t.events.is_empty() {
        a.push_str(&format!(" event=\"{}\"", t.events.join(" ")));
    }
    if let Some(c) = &t.cond {
        a.push_str(&format!(" cond=\"{}\"", o.attr(c)));
    }
    if !t.targets.is_empty() {
        a.push_str(&format!(" target=\"{}\"", t.targets.join(" ")));
    }
    if t.internal {
        a.push_str(" type=\"internal\"");
    }
    if t.content.is_empty() {
        o.line(ind, &format!("<transition{}/>", a));
    } else {
        o.line(ind, &format!("<transition{}>", a));
        for c in &t.content {
            render_content(o, ind + 1, c);
        }
        o.line(ind, "</transition>");
    }
}

fn render_state(o: &mut Out, ind: usize, s: &State) {
    let (tag, extra) = match &s.kind {
        Kind::State => ("state", String::new()),
        Kind::Parallel => ("parallel", String::new()),
        Kind::Final => ("final", String::new()),
        Kind::History { deep } => ("history", format!(" type=\"{}\"", if *deep { "deep" } else { "shallow" })),
    };
    let mut a = format!(" id=\"{}\"{}", s.id, extra);
    if let Initial::Attr(t) = &s.initial {
        a.push_str(&format!(" initial=\"{}\"", t.join(" ")));
    }
    o.line(ind, &format!("<{}{}>", tag, a));
    render_data(o, ind + 1, &s.data);
    if let Initial::Elem(t, content) = &s.initial {
        o.line(ind + 1, "<initial>");
        let tr = Trans { events: vec![], cond: None, targets: t.clone(), internal: false, content: content.clone() };
        render_transition(o, ind + 2, &tr);
        o.line(ind + 1, "</initial>");
    }
    for b in &s.onentry {
        o.line(ind + 1, "<onentry>");
        for c in b {
            render_content(o, ind + 2, c);
        }
        o.line(ind + 1, "</onentry>");
    }
    for b in &s.onexit {
        o.line(ind + 1, "<onexit>");
        for c in b {
            render_content(o, ind + 2, c);
        }
        o.line(ind + 1, "</onexit>");
    }
    for t in &s.transitions {
        render_transition(o, ind + 1, t);
    }
    if let Some(dd) = &s.donedata {
        o.line(ind + 1, "<donedata>");
        if let Some(c) = &dd.content {
            o.line(ind + 2, &format!("<content expr=\"{}\"/>", o.attr(c)));
        }
        for (n, x) in &dd.params {
            o.line(ind + 2, &format!("<param name=\"{}\" expr=\"{}\"/>", n, o.attr(x)));
        }
        o.line(ind + 1, "</donedata>");
    }
    for c in &s.children {
        render_state(o, ind + 1, c);
    }
    o.line(ind, &format!("</{}>", tag));
}

pub fn render_doc(doc: &Doc) -> String {
    let mut o = Out { s: String::new(), dm: doc.dm };
    let mut a = format!(" xmlns=\"http://www.w3.org/2005/07/scxml\" version=\"1.0\" name=\"{}\" datamodel=\"{}\"", doc.name, doc.dm.name());
    if doc.late_binding {
        a.push_str(" binding=\"late\"");
    }
    if let Some(i) = &doc.initial {
        a.push_str(&format!(" initial=\"{}\"", i.join(" ")));
    }
    o.line(0, &format!("<scxml{}>", a));
    render_data(&mut o, 1, &doc.data);
    for s in &doc.states {
        render_state(&mut o, 1, s);
    }
    o.line(0, "</scxml>");
    o.s
}
