//! Rendering of the document AST to SCXML text: AST -> generic element tree -> text.
//! `Lexical::canonical()` gives a fixed plain form; `Lexical::from_tape` adds the lexical
//! variation used by C04 (whitespace, comments, quoting, attribute order, character/entity
//! references, namespace prefix, empty-element form, initial attribute vs. element, descriptor
//! spelling, XInclude of text fragments).

use crate::doc::*;
use crate::tape::Tape;

#[derive(Clone, Debug)]
pub enum Node {
    El(El),
    /// text content, given unescaped
    Text(String),
}

#[derive(Clone, Debug)]
pub struct El {
    pub name: String,
    pub attrs: Vec<(String, String)>,
    pub children: Vec<Node>,
}

impl El {
    fn new(name: &str) -> El {
        El { name: name.to_string(), attrs: vec![], children: vec![] }
    }
    fn attr(mut self, k: &str, v: &str) -> El {
        self.attrs.push((k.to_string(), v.to_string()));
        self
    }
    fn opt(mut self, k: &str, v: &Option<String>) -> El {
        if let Some(v) = v {
            self.attrs.push((k.to_string(), v.clone()));
        }
        self
    }
    fn child(mut self, e: El) -> El {
        self.children.push(Node::El(e));
        self
    }
}

pub fn xml_escape_attr(s: &str) -> String {
    let mut o = String::new();
    for c in s.chars() {
        match c {
            '&' => o.push_str("&amp;"),
            '<' => o.push_str("&lt;"),
            '>' => o.push_str("&gt;"),
            '"' => o.push_str("&quot;"),
            '\'' => o.push_str("&apos;"),
            c => o.push(c),
        }
    }
    o
}

/// Expression source in the given data model's syntax.
pub fn expr_src(x: &X, dm: DM) -> String {
    fn q(s: &str) -> String {
        format!("'{}'", s.replace('\\', "\\\\").replace('\'', "\\u0027"))
    }
    fn go(x: &X, dm: DM, top: bool) -> String {
        let s = match x {
            X::Int(i) => return i.to_string(),
            X::Bool(b) => return b.to_string(),
            X::Str(s) => return q(s),
            X::Var(v) => return v.clone(),
            X::In(s) => return format!("In({})", q(s)),
            X::EventName => return "_event.name".to_string(),
            X::IntArr(a) => return format!("[{}]", a.iter().map(|i| i.to_string()).collect::<Vec<_>>().join(",")),
            X::Bad(s) | X::Raw(s) => return s.clone(),
            X::Not(a) => return format!("!({})", go(a, dm, true)),
            X::And(a, b) => format!("{} {} {}", go(a, dm, false), if dm == DM::Ecma { "&&" } else { "&" }, go(b, dm, false)),
            X::Or(a, b) => format!("{} {} {}", go(a, dm, false), if dm == DM::Ecma { "||" } else { "|" }, go(b, dm, false)),
            X::Eq(a, b) => format!("{} == {}", go(a, dm, false), go(b, dm, false)),
            X::Lt(a, b) => format!("{} < {}", go(a, dm, false), go(b, dm, false)),
            X::Add(a, b) => format!("{} + {}", go(a, dm, false), go(b, dm, false)),
        };
        if top {
            s
        } else {
            format!("({})", s)
        }
    }
    go(x, dm, true)
}

/// Choices that change the element tree but not the meaning.
#[derive(Clone, Debug, Default)]
pub struct Structural {
    /// per compound state with Initial::Attr: render as <initial> element instead (and vice versa for empty Elem)
    pub flip_initial: Vec<bool>,
    /// per descriptor occurrence: 0 = as written, 1 = add '.', 2 = add '.*', 3 = '..', 4 = '.*.', 5 = '..*'
    pub descriptor_spelling: Vec<u8>,
}

struct Build<'a> {
    dm: DM,
    st: &'a Structural,
    n_initial: usize,
    n_desc: usize,
}

impl<'a> Build<'a> {
    fn x(&self, x: &X) -> String {
        expr_src(x, self.dm)
    }

    fn params(&self, mut e: El, params: &[ParamSpec]) -> El {
        for p in params {
            e = e.child(El::new("param").attr("name", &p.name).opt("expr", &p.expr).opt("location", &p.location));
        }
        e
    }

    fn content_spec(&self, mut e: El, c: &Option<ContentSpec>) -> El {
        match c {
            None => {}
            Some(ContentSpec::Expr(x)) => e = e.child(El::new("content").attr("expr", x)),
            Some(ContentSpec::Text(t)) => {
                let mut c = El::new("content");
                c.children.push(Node::Text(t.clone()));
                e = e.child(c);
            }
            Some(ContentSpec::Empty) => e = e.child(El::new("content")),
        }
        e
    }

    fn content(&mut self, out: &mut Vec<Node>, c: &C) {
        match c {
            C::Mark { tag, args } => {
                let mut a = vec![format!("'{}'", tag)];
                for x in args {
                    a.push(self.x(x));
                }
                let mut e = El::new("script");
                e.children.push(Node::Text(format!("mark({})", a.join(", "))));
                out.push(Node::El(e));
            }
            C::Raise(e) => out.push(Node::El(El::new("raise").attr("event", e))),
            C::SendInternal(e) => out.push(Node::El(El::new("send").attr("event", e).attr("target", "#_internal"))),
            C::SendSelf(e) => out.push(Node::El(El::new("send").attr("event", e))),
            C::Assign { var, expr } => out.push(Node::El(El::new("assign").attr("location", var).attr("expr", &self.x(expr)))),
            C::AssignText { location, text } => {
                let mut e = El::new("assign").attr("location", location);
                e.children.push(Node::Text(text.clone()));
                out.push(Node::El(e));
            }
            C::If { branches, els } => {
                let mut e = El::new("if");
                for (i, (cond, body)) in branches.iter().enumerate() {
                    if i == 0 {
                        e.attrs.push(("cond".into(), self.x(cond)));
                    } else {
                        e.children.push(Node::El(El::new("elseif").attr("cond", &self.x(cond))));
                    }
                    for b in body {
                        self.content(&mut e.children, b);
                    }
                }
                if let Some(b) = els {
                    e.children.push(Node::El(El::new("else")));
                    for x in b {
                        self.content(&mut e.children, x);
                    }
                }
                out.push(Node::El(e));
            }
            C::ForEach { array, item, index, body } => {
                let mut e = El::new("foreach").attr("array", &self.x(array)).attr("item", item).opt("index", index);
                for b in body {
                    self.content(&mut e.children, b);
                }
                out.push(Node::El(e));
            }
            C::Log(x) => out.push(Node::El(El::new("log").attr("expr", &self.x(x)))),
            C::LogLabel { label, expr } => out.push(Node::El(El::new("log").attr("label", label).attr("expr", &self.x(expr)))),
            C::Script(x) => {
                let mut e = El::new("script");
                e.children.push(Node::Text(self.x(x)));
                out.push(Node::El(e));
            }
            C::Cancel { sendid, sendidexpr } => out.push(Node::El(El::new("cancel").opt("sendid", sendid).opt("sendidexpr", sendidexpr))),
            C::Send(s) => {
                let mut e = El::new("send")
                    .opt("event", &s.event)
                    .opt("eventexpr", &s.eventexpr)
                    .opt("target", &s.target)
                    .opt("targetexpr", &s.targetexpr)
                    .opt("type", &s.typ)
                    .opt("typeexpr", &s.typeexpr)
                    .opt("id", &s.id)
                    .opt("idlocation", &s.idlocation)
                    .opt("delay", &s.delay)
                    .opt("delayexpr", &s.delayexpr);
                if !s.namelist.is_empty() {
                    e = e.attr("namelist", &s.namelist.join(" "));
                }
                e = self.params(e, &s.params);
                e = self.content_spec(e, &s.content);
                out.push(Node::El(e));
            }
        }
    }

    fn block(&mut self, name: &str, b: &[C]) -> El {
        let mut e = El::new(name);
        for c in b {
            self.content(&mut e.children, c);
        }
        e
    }

    fn data(&mut self, data: &[DataDecl]) -> Option<El> {
        if data.is_empty() {
            return None;
        }
        let mut dmel = El::new("datamodel");
        for d in data {
            let mut e = El::new("data").attr("id", &d.id);
            match &d.expr {
                Some(X::Raw(t)) if t.starts_with("TEXT:") => e.children.push(Node::Text(t[5..].to_string())),
                Some(x) => e = e.attr("expr", &self.x(x)),
                None => {}
            }
            dmel = dmel.child(e);
        }
        Some(dmel)
    }

    fn descriptor(&mut self, d: &str) -> String {
        let k = self.st.descriptor_spelling.get(self.n_desc).cloned().unwrap_or(0);
        self.n_desc += 1;
        if d == "*" || d.ends_with('.') || d.ends_with(".*") {
            return d.to_string();
        }
        match k {
            1 => format!("{}.", d),
            2 => format!("{}.*", d),
            3 => format!("{}..", d),
            4 => format!("{}.*.", d),
            5 => format!("{}..*", d),
            _ => d.to_string(),
        }
    }

    fn transition(&mut self, t: &Trans) -> El {
        let mut e = El::new("transition");
        if !t.events.is_empty() {
            let ev: Vec<String> = t.events.iter().map(|d| self.descriptor(d)).collect();
            e = e.attr("event", &ev.join(" "));
        }
        if let Some(c) = &t.cond {
            e = e.attr("cond", &self.x(c));
        }
        if !t.targets.is_empty() {
            e = e.attr("target", &t.targets.join(" "));
        }
        if t.internal {
            e = e.attr("type", "internal");
        }
        for c in &t.content {
            self.content(&mut e.children, c);
        }
        e
    }

    fn state(&mut self, s: &State) -> El {
        let (tag, ty) = match &s.kind {
            Kind::State => ("state", None),
            Kind::Parallel => ("parallel", None),
            Kind::Final => ("final", None),
            Kind::History { deep } => ("history", Some(if *deep { "deep" } else { "shallow" })),
        };
        let mut e = El::new(tag).attr("id", &s.id);
        if let Some(t) = ty {
            e = e.attr("type", t);
        }
        // initial: attribute or element
        let flip = if matches!(s.initial, Initial::Default) {
            false
        } else {
            let f = self.st.flip_initial.get(self.n_initial).cloned().unwrap_or(false);
            self.n_initial += 1;
            f
        };
        let mut initial_el: Option<El> = None;
        match &s.initial {
            Initial::Default => {}
            Initial::Attr(t) => {
                if flip {
                    initial_el = Some(El::new("initial").child(El::new("transition").attr("target", &t.join(" "))));
                } else {
                    e = e.attr("initial", &t.join(" "));
                }
            }
            Initial::Elem(t, c) => {
                if flip && c.is_empty() {
                    e = e.attr("initial", &t.join(" "));
                } else {
                    let mut tr = El::new("transition").attr("target", &t.join(" "));
                    for x in c {
                        self.content(&mut tr.children, x);
                    }
                    initial_el = Some(El::new("initial").child(tr));
                }
            }
        }
        if let Some(d) = self.data(&s.data) {
            e = e.child(d);
        }
        if let Some(i) = initial_el {
            e = e.child(i);
        }
        for b in &s.onentry {
            let x = self.block("onentry", b);
            e = e.child(x);
        }
        for b in &s.onexit {
            let x = self.block("onexit", b);
            e = e.child(x);
        }
        for t in &s.transitions {
            let x = self.transition(t);
            e = e.child(x);
        }
        for inv in &s.invokes {
            let mut i = El::new("invoke")
                .opt("type", &inv.typ)
                .opt("typeexpr", &inv.typeexpr)
                .opt("src", &inv.src)
                .opt("srcexpr", &inv.srcexpr)
                .opt("id", &inv.id)
                .opt("idlocation", &inv.idlocation);
            if !inv.namelist.is_empty() {
                i = i.attr("namelist", &inv.namelist.join(" "));
            }
            if let Some(a) = inv.autoforward {
                i = i.attr("autoforward", if a { "true" } else { "false" });
            }
            i = self.params(i, &inv.params);
            i = self.content_spec(i, &inv.content);
            if let Some(f) = &inv.finalize {
                let x = self.block("finalize", f);
                i = i.child(x);
            }
            e = e.child(i);
        }
        if let Some(dd) = &s.donedata {
            let mut d = El::new("donedata");
            if let Some(c) = &dd.content {
                match c {
                    X::Raw(t) if t.starts_with("TEXT:") => {
                        let mut ce = El::new("content");
                        ce.children.push(Node::Text(t[5..].to_string()));
                        d = d.child(ce);
                    }
                    c => d = d.child(El::new("content").attr("expr", &self.x(c))),
                }
            }
            for (n, x) in &dd.params {
                d = d.child(El::new("param").attr("name", n).attr("expr", &self.x(x)));
            }
            e = e.child(d);
        }
        for c in &s.children {
            let x = self.state(c);
            e = e.child(x);
        }
        e
    }
}

pub fn doc_to_tree(doc: &Doc, st: &Structural, script: &Option<String>) -> El {
    let mut b = Build { dm: doc.dm, st, n_initial: 0, n_desc: 0 };
    let mut root = El::new("scxml").attr("xmlns", "http://www.w3.org/2005/07/scxml").attr("version", "1.0").attr("name", &doc.name).attr("datamodel", doc.dm.name());
    if doc.late_binding {
        root = root.attr("binding", "late");
    }
    if let Some(i) = &doc.initial {
        root = root.attr("initial", &i.join(" "));
    }
    if let Some(d) = b.data(&doc.data) {
        root = root.child(d);
    }
    if let Some(s) = script {
        let mut e = El::new("script");
        e.children.push(Node::Text(s.clone()));
        root = root.child(e);
    }
    for s in &doc.states {
        let x = b.state(s);
        root = root.child(x);
    }
    root
}

/// Lexical choices of the serialisation (all driven by a tape; a zero tape = canonical form).
pub struct Lexical<'a, 'b> {
    pub tape: Option<&'a mut Tape<'b>>,
    pub prefix: Option<String>,
    pub variation_kinds: std::collections::BTreeSet<&'static str>,
    /// files written for XInclude: (file name, content)
    pub includes: Vec<(String, String)>,
    pub include_pct: u32,
}

impl<'a, 'b> Lexical<'a, 'b> {
    pub fn canonical() -> Lexical<'static, 'static> {
        Lexical { tape: None, prefix: None, variation_kinds: Default::default(), includes: vec![], include_pct: 0 }
    }
    pub fn from_tape(t: &'a mut Tape<'b>) -> Lexical<'a, 'b> {
        let prefix = if t.chance(30) { Some("sc".to_string()) } else { None };
        let include_pct = if t.chance(40) { 12 } else { 0 };
        let mut l = Lexical { tape: Some(t), prefix, variation_kinds: Default::default(), includes: vec![], include_pct };
        if l.prefix.is_some() {
            l.variation_kinds.insert("namespace_prefix");
        }
        l
    }
    fn below(&mut self, n: usize) -> usize {
        match &mut self.tape {
            Some(t) => t.below(n),
            None => 0,
        }
    }
    fn chance(&mut self, p: u32) -> bool {
        match &mut self.tape {
            Some(t) => t.chance(p),
            None => false,
        }
    }
    fn ws(&mut self, ind: usize) -> String {
        if self.tape.is_none() {
            return format!("\n{}", "  ".repeat(ind));
        }
        match self.below(7) {
            0 | 1 => format!("\n{}", "  ".repeat(ind)),
            2 => {
                self.variation_kinds.insert("whitespace");
                String::new()
            }
            3 => {
                self.variation_kinds.insert("whitespace");
                " ".into()
            }
            4 => {
                self.variation_kinds.insert("whitespace");
                "\n\n\t".into()
            }
            5 => {
                self.variation_kinds.insert("comment");
                format!("\n{}<!-- c{} <x a='1'> -->", "  ".repeat(ind), ind)
            }
            _ => {
                self.variation_kinds.insert("whitespace");
                "\r\n ".into()
            }
        }
    }
    fn attr_value(&mut self, v: &str) -> String {
        // quote choice and escapes
        let dq = self.tape.is_none() || !self.chance(35);
        if !dq {
            self.variation_kinds.insert("single_quotes");
        }
        let mut o = String::new();
        o.push(if dq { '"' } else { '\'' });
        for c in v.chars() {
            let charref = self.tape.is_some() && (c.is_alphanumeric() || c == ' ') && self.chance(4);
            match c {
                '&' => o.push_str("&amp;"),
                '<' => o.push_str("&lt;"),
                '>' => {
                    if self.chance(50) {
                        o.push('>');
                    } else {
                        o.push_str("&gt;");
                    }
                }
                '"' if dq => o.push_str("&quot;"),
                '\'' if !dq => o.push_str("&apos;"),
                '"' | '\'' => {
                    if self.chance(30) {
                        self.variation_kinds.insert("entity_reference");
                        o.push_str(if c == '"' { "&quot;" } else { "&apos;" });
                    } else {
                        o.push(c);
                    }
                }
                c if charref => {
                    self.variation_kinds.insert("character_reference");
                    if self.chance(50) {
                        o.push_str(&format!("&#x{:x};", c as u32));
                    } else {
                        o.push_str(&format!("&#{};", c as u32));
                    }
                }
                c => o.push(c),
            }
        }
        o.push(if dq { '"' } else { '\'' });
        o
    }
    fn text(&mut self, t: &str) -> String {
        // element text: entity escapes, or a CDATA section
        if self.tape.is_some() && !t.contains("]]>") && self.chance(20) {
            self.variation_kinds.insert("cdata");
            return format!("<![CDATA[{}]]>", t);
        }
        let mut o = String::new();
        for c in t.chars() {
            match c {
                '&' => o.push_str("&amp;"),
                '<' => o.push_str("&lt;"),
                '>' => o.push_str("&gt;"),
                c => o.push(c),
            }
        }
        o
    }
    fn qname(&self, n: &str) -> String {
        match &self.prefix {
            Some(p) => format!("{}:{}", p, n),
            None => n.to_string(),
        }
    }
}

pub fn serialise(root: &El, lex: &mut Lexical) -> String {
    let mut out = String::new();
    if lex.chance(50) {
        out.push_str("<?xml version=\"1.0\" encoding=\"UTF-8\"?>");
    }
    ser_el(root, lex, 0, true, &mut out);
    out.push('\n');
    out
}

fn ser_el(e: &El, lex: &mut Lexical, ind: usize, is_root: bool, out: &mut String) {
    out.push_str(&lex.ws(ind));
    // XInclude: move this state subtree into a text fragment
    if !is_root && lex.include_pct > 0 && matches!(e.name.as_str(), "state" | "parallel" | "final") && lex.chance(lex.include_pct) {
        let mut frag = String::new();
        let saved = lex.include_pct;
        lex.include_pct = 0; // no nested includes (fragments are resolved relative to the including file)
        ser_el(e, lex, 0, false, &mut frag);
        lex.include_pct = saved;
        let fname = format!("frag{}.xml", lex.includes.len());
        lex.includes.push((fname.clone(), frag));
        lex.variation_kinds.insert("xinclude");
        out.push_str(&format!("<xi:include xmlns:xi=\"http://www.w3.org/2001/XInclude\" href=\"{}\" parse=\"text\"/>", fname));
        return;
    }
    let mut attrs = e.attrs.clone();
    if is_root {
        if let Some(p) = lex.prefix.clone() {
            for a in attrs.iter_mut() {
                if a.0 == "xmlns" {
                    a.0 = format!("xmlns:{}", p);
                }
            }
        }
    }
    // attribute order
    if attrs.len() > 1 && lex.chance(40) {
        lex.variation_kinds.insert("attribute_order");
        let k = lex.below(attrs.len());
        attrs.rotate_left(k);
        if lex.chance(50) {
            attrs.reverse();
        }
    }
    out.push('<');
    out.push_str(&lex.qname(&e.name));
    for (k, v) in &attrs {
        let sep = if lex.tape.is_some() && lex.chance(15) { "\n   " } else { " " };
        out.push_str(sep);
        out.push_str(k);
        out.push('=');
        out.push_str(&lex.attr_value(v));
    }
    if e.children.is_empty() {
        if lex.tape.is_some() && lex.chance(35) {
            lex.variation_kinds.insert("start_end_tag_for_empty_element");
            out.push_str(&format!("></{}>", lex.qname(&e.name)));
        } else {
            out.push_str("/>");
        }
        return;
    }
    out.push('>');
    let only_text = e.children.iter().all(|c| matches!(c, Node::Text(_)));
    for c in &e.children {
        match c {
            Node::El(x) => ser_el(x, lex, ind + 1, false, out),
            Node::Text(t) => {
                let s = lex.text(t);
                out.push_str(&s);
            }
        }
    }
    if !only_text {
        out.push_str(&lex.ws(ind));
    }
    out.push_str(&format!("</{}>", lex.qname(&e.name)));
}

/// Canonical rendering (what the engine checks run).
pub fn render_doc(doc: &Doc) -> String {
    let tree = doc_to_tree(doc, &Structural::default(), &None);
    serialise(&tree, &mut Lexical::canonical())
}
