//! The canonical by-name model dump (see dump.rs) computed from the document AST: what a reader
//! that mirrors the document must produce.

use crate::doc::*;
use crate::refmodel::normalise_descriptor;
use crate::render::expr_src;

struct A {
    dm: DM,
    out: String,
}

fn src(s: &str) -> String {
    format!("src<{}>", s)
}

fn opt_src(s: &Option<String>) -> String {
    match s {
        Some(s) => src(s),
        None => "none".into(),
    }
}

/// `delay` attribute values used by the generators, with their value in milliseconds
pub const DELAYS: [(&str, u64); 10] = [("30ms", 30), ("0.05s", 50), ("1m", 60_000), ("2h", 7_200_000), ("1d", 86_400_000), ("1.5s", 1_500), ("0s", 0), ("250ms", 250), ("0.5m", 30_000), ("12345s", 12_345_000)];

pub fn delay_ms(d: &str) -> u64 {
    DELAYS.iter().find(|x| x.0 == d).map(|x| x.1).unwrap_or(0)
}

impl A {
    fn line(&mut self, ind: usize, s: &str) {
        for _ in 0..ind {
            self.out.push_str("  ");
        }
        self.out.push_str(&s.replace('\n', "\\n").replace('\r', "\\r"));
        self.out.push('\n');
    }
    fn x(&self, x: &X) -> String {
        src(&expr_src(x, self.dm))
    }
    fn params(&self, p: &[ParamSpec]) -> String {
        if p.is_empty() {
            return "-".into();
        }
        p.iter().map(|p| format!("({}|{}|{})", p.name, p.expr.clone().unwrap_or_default(), p.location.clone().unwrap_or_default())).collect::<Vec<_>>().join("")
    }
    fn common(&self, c: &Option<ContentSpec>, absent_is_none: bool) -> String {
        match c {
            None => "-".into(),
            Some(ContentSpec::Expr(e)) => format!("content<None> expr<{:?}>", Some(e)),
            Some(ContentSpec::Text(t)) => format!("content<{:?}> expr<None>", Some(t.trim().to_string())),
            Some(ContentSpec::Empty) => {
                if absent_is_none {
                    "-".into()
                } else {
                    "content<None> expr<None>".into()
                }
            }
        }
    }
    fn block(&mut self, ind: usize, label: &str, b: &[C]) {
        if b.is_empty() {
            self.line(ind, &format!("{}: none", label));
            return;
        }
        self.line(ind, &format!("{}:", label));
        for c in b {
            self.item(ind + 1, c);
        }
    }
    fn if_chain(&mut self, ind: usize, branches: &[(X, Vec<C>)], els: &Option<Vec<C>>) {
        let (cond, body) = &branches[0];
        self.line(ind, &format!("if cond={}", self.x(cond)));
        self.block(ind + 1, "then", body);
        if branches.len() > 1 {
            self.line(ind + 1, "else:");
            self.if_chain(ind + 2, &branches[1..], els);
        } else {
            match els {
                Some(e) => self.block(ind + 1, "else", e),
                None => self.line(ind + 1, "else: none"),
            }
        }
    }
    fn send_line(&self, s: &SendSpec) -> String {
        format!(
            "send id=<{}> idlocation=<{}> event={} eventexpr={} target={} targetexpr={} type={} typeexpr={} delay_ms={} delayexpr={} namelist={:?} params={} {}",
            s.id.clone().unwrap_or_default(),
            s.idlocation.clone().unwrap_or_default(),
            opt_src(&s.event),
            opt_src(&s.eventexpr),
            opt_src(&s.target),
            opt_src(&s.targetexpr),
            opt_src(&s.typ),
            opt_src(&s.typeexpr),
            s.delay.as_ref().map(|d| delay_ms(d)).unwrap_or(0),
            opt_src(&s.delayexpr),
            s.namelist,
            self.params(&s.params),
            self.common(&s.content, true)
        )
    }
    fn item(&mut self, ind: usize, c: &C) {
        match c {
            C::Mark { tag, args } => {
                let mut a = vec![format!("'{}'", tag)];
                for x in args {
                    a.push(expr_src(x, self.dm));
                }
                self.line(ind, &format!("script {}", src(&format!("mark({})", a.join(", ")))));
            }
            C::Raise(e) => self.line(ind, &format!("raise event=<{}>", e)),
            C::SendInternal(e) => {
                let s = SendSpec { event: Some(e.clone()), target: Some("#_internal".into()), ..Default::default() };
                let l = self.send_line(&s);
                self.line(ind, &l);
            }
            C::SendSelf(e) => {
                let s = SendSpec { event: Some(e.clone()), ..Default::default() };
                let l = self.send_line(&s);
                self.line(ind, &l);
            }
            C::Send(s) => {
                let l = self.send_line(s);
                self.line(ind, &l);
            }
            C::Assign { var, expr } => self.line(ind, &format!("assign location={} expr={}", src(var), self.x(expr))),
            C::AssignText { location, text } => {
                // the reader turns child text into a quoted string expression
                let t = format!("\"{}\"", text.trim().replace('"', "\\\"").replace('\n', " "));
                self.line(ind, &format!("assign location={} expr={}", src(location), src(&t)));
            }
            C::If { branches, els } => self.if_chain(ind, branches, els),
            C::ForEach { array, item, index, body } => {
                self.line(ind, &format!("foreach array={} item=<{}> index=<{}>", self.x(array), item, index.clone().unwrap_or_default()));
                self.block(ind + 1, "body", body);
            }
            C::Log(x) => self.line(ind, &format!("log label=<> expr={}", self.x(x))),
            C::LogLabel { label, expr } => self.line(ind, &format!("log label=<{}> expr={}", label, self.x(expr))),
            C::Script(x) => self.line(ind, &format!("script {}", src(expr_src(x, self.dm).trim()))),
            C::Cancel { sendid, sendidexpr } => self.line(ind, &format!("cancel sendid=<{}> sendidexpr={}", sendid.clone().unwrap_or_default(), opt_src(sendidexpr))),
        }
    }
    fn transition(&mut self, ind: usize, label: &str, t: &Trans) {
        let events: Vec<String> = t.events.iter().map(|d| normalise_descriptor(d)).collect();
        let wildcard = events.iter().any(|e| e == "*");
        let cond = match &t.cond {
            Some(c) => self.x(c),
            None => "null".into(),
        };
        self.line(ind, &format!("{} events={:?} wildcard={} cond={} targets={:?} type={}", label, events, wildcard, cond, t.targets, if t.internal { "internal" } else { "external" }));
        self.block(ind + 1, "content", &t.content);
    }
    fn data(&mut self, data: &[DataDecl]) {
        let mut v: Vec<&DataDecl> = data.iter().collect();
        v.sort_by(|a, b| a.id.cmp(&b.id));
        for d in v {
            let s = match &d.expr {
                Some(X::Raw(t)) if t.starts_with("TEXT:") => src(t[5..].trim()),
                Some(x) => self.x(x),
                None => src(""),
            };
            self.line(1, &format!("data {}={}", d.id, s));
        }
    }
    fn state(&mut self, s: &State, parent: &str) {
        let kind = match &s.kind {
            Kind::State => "state".to_string(),
            Kind::Parallel => "parallel".to_string(),
            Kind::Final => "final".to_string(),
            Kind::History { deep } => format!("history({})", if *deep { "deep" } else { "shallow" }),
        };
        let children: Vec<String> = s.children.iter().filter(|c| !c.is_history()).map(|c| c.id.clone()).collect();
        let hist: Vec<String> = s.children.iter().filter(|c| c.is_history()).map(|c| c.id.clone()).collect();
        self.line(0, &format!("state {} kind={} parent={} children={:?} history={:?}", s.id, kind, parent, children, hist));
        if matches!(s.kind, Kind::State) && !children.is_empty() {
            match &s.initial {
                Initial::Default => {
                    self.line(1, &format!("initial targets={:?}", vec![children[0].clone()]));
                    self.line(2, "content: none");
                }
                Initial::Attr(t) => {
                    self.line(1, &format!("initial targets={:?}", t));
                    self.line(2, "content: none");
                }
                Initial::Elem(t, c) => {
                    self.line(1, &format!("initial targets={:?}", t));
                    self.block(2, "content", c);
                }
            }
        }
        self.data(&s.data);
        for (i, b) in s.onentry.iter().enumerate() {
            self.block(1, &format!("onentry[{}]", i), b);
        }
        for (i, b) in s.onexit.iter().enumerate() {
            self.block(1, &format!("onexit[{}]", i), b);
        }
        for (i, t) in s.transitions.iter().enumerate() {
            self.transition(1, &format!("transition[{}]", i), t);
        }
        for inv in &s.invokes {
            let l = format!(
                "invoke id=<{}> idlocation=<{}> type={} typeexpr={} src={} srcexpr={} autoforward={} namelist={:?} params={} {}",
                inv.id.clone().unwrap_or_default(),
                inv.idlocation.clone().unwrap_or_default(),
                opt_src(&inv.typ),
                opt_src(&inv.typeexpr),
                opt_src(&inv.src),
                opt_src(&inv.srcexpr),
                inv.autoforward.unwrap_or(false),
                inv.namelist,
                self.params(&inv.params),
                self.common(&inv.content, false)
            );
            self.line(1, &l);
            match &inv.finalize {
                Some(f) => self.block(2, "finalize", f),
                None => self.line(2, "finalize: none"),
            }
        }
        if let Some(dd) = &s.donedata {
            let params: Vec<ParamSpec> = dd.params.iter().map(|(n, x)| ParamSpec { name: n.clone(), expr: Some(expr_src(x, self.dm)), location: None }).collect();
            let content = dd.content.as_ref().map(|c| match c {
                X::Raw(t) if t.starts_with("TEXT:") => ContentSpec::Text(t[5..].to_string()),
                c => ContentSpec::Expr(expr_src(c, self.dm)),
            });
            let l = format!("donedata params={} {}", self.params(&params), self.common(&content, false));
            self.line(1, &l);
        }
        for c in &s.children {
            self.state(c, &s.id);
        }
    }
}

pub fn dump_doc(doc: &Doc, script: &Option<String>) -> String {
    let mut a = A { dm: doc.dm, out: String::new() };
    a.line(0, &format!("fsm name=<{}> datamodel=<{}> binding={} root=<scxml>", doc.name, doc.dm.name(), if doc.late_binding { "late" } else { "early" }));
    match script {
        Some(s) if !s.trim().is_empty() => {
            a.line(0, "script:");
            a.line(1, &format!("script {}", src(s.trim())));
        }
        Some(_) => {
            a.line(0, "script:");
            a.line(1, &format!("script {}", src("")));
        }
        None => a.line(0, "script: none"),
    }
    let children: Vec<String> = doc.states.iter().map(|c| c.id.clone()).collect();
    a.line(0, &format!("state <scxml> kind=state parent=- children={:?} history=[]", children));
    match &doc.initial {
        Some(t) => a.line(1, &format!("initial targets={:?}", t)),
        None => a.line(1, &format!("initial targets={:?}", vec![children[0].clone()])),
    }
    a.line(2, "content: none");
    a.data(&doc.data);
    for s in &doc.states {
        a.state(s, "<scxml>");
    }
    a.out
}
