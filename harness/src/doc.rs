//! SCXML document AST, the small typed content/expression language shared by all data models,
//! and the document generator (profiles = weight tables).  DESIGN.md §2.2.

use crate::tape::Tape;

#[derive(Clone, Copy, Debug, PartialEq, Eq)]
pub enum DM {
    Null,
    Rfsm,
    Ecma,
}

impl DM {
    pub fn name(&self) -> &'static str {
        match self {
            DM::Null => "null",
            DM::Rfsm => "rfsm-expression",
            DM::Ecma => "ecmascript",
        }
    }
}

/// Expression language of generated documents (same meaning in rfsm-expression and ECMAScript).
#[derive(Clone, Debug, PartialEq)]
pub enum X {
    Int(i64),
    Bool(bool),
    Str(String),
    Var(String),
    In(String),
    Not(Box<X>),
    And(Box<X>, Box<X>),
    Or(Box<X>, Box<X>),
    Eq(Box<X>, Box<X>),
    Lt(Box<X>, Box<X>),
    Add(Box<X>, Box<X>),
    /// _event.name
    EventName,
    /// literal array of integers
    IntArr(Vec<i64>),
    /// raw source that is expected to fail evaluation in every data model (error injection)
    Bad(String),
    /// opaque source text (documents that are only parsed / serialised, never executed)
    Raw(String),
}

/// Executable content.
#[derive(Clone, Debug, PartialEq)]
pub enum C {
    /// `<script>mark('tag', args...)</script>` -- the observation point
    Mark { tag: String, args: Vec<X> },
    Raise(String),
    /// `<send event=.. target="#_internal"/>`
    SendInternal(String),
    /// `<send event=../>` without target: own external queue
    SendSelf(String),
    Assign { var: String, expr: X },
    If { branches: Vec<(X, Vec<C>)>, els: Option<Vec<C>> },
    ForEach { array: X, item: String, index: Option<String>, body: Vec<C> },
    Log(X),
    /// `<script>` with a raw (failing) source
    Script(X),
    /// full `<send>` with every attribute / child the reader knows
    Send(Box<SendSpec>),
    /// `<cancel sendid=.. | sendidexpr=..>`
    Cancel { sendid: Option<String>, sendidexpr: Option<String> },
    /// `<log label=.. expr=..>`
    LogLabel { label: String, expr: X },
    /// `<assign location=..>text</assign>`
    AssignText { location: String, text: String },
}

#[derive(Clone, Debug, PartialEq, Default)]
pub struct ParamSpec {
    pub name: String,
    pub expr: Option<String>,
    pub location: Option<String>,
}

#[derive(Clone, Debug, PartialEq)]
pub enum ContentSpec {
    Expr(String),
    Text(String),
    /// `<content/>` without expr and children
    Empty,
}

#[derive(Clone, Debug, PartialEq, Default)]
pub struct SendSpec {
    pub event: Option<String>,
    pub eventexpr: Option<String>,
    pub target: Option<String>,
    pub targetexpr: Option<String>,
    pub typ: Option<String>,
    pub typeexpr: Option<String>,
    pub id: Option<String>,
    pub idlocation: Option<String>,
    pub delay: Option<String>,
    pub delayexpr: Option<String>,
    pub namelist: Vec<String>,
    pub params: Vec<ParamSpec>,
    pub content: Option<ContentSpec>,
}

#[derive(Clone, Debug, PartialEq, Default)]
pub struct InvokeSpec {
    pub typ: Option<String>,
    pub typeexpr: Option<String>,
    pub src: Option<String>,
    pub srcexpr: Option<String>,
    pub id: Option<String>,
    pub idlocation: Option<String>,
    pub namelist: Vec<String>,
    pub autoforward: Option<bool>,
    pub params: Vec<ParamSpec>,
    pub content: Option<ContentSpec>,
    pub finalize: Option<Vec<C>>,
}

#[derive(Clone, Debug, PartialEq)]
pub enum Kind {
    State,
    Parallel,
    Final,
    History { deep: bool },
}

#[derive(Clone, Debug, PartialEq)]
pub enum Initial {
    /// first child in document order
    Default,
    /// initial="a b"
    Attr(Vec<String>),
    /// <initial><transition target="a b">content</transition></initial>
    Elem(Vec<String>, Vec<C>),
}

#[derive(Clone, Debug, PartialEq)]
pub struct Trans {
    /// event descriptors as written (empty = eventless)
    pub events: Vec<String>,
    pub cond: Option<X>,
    pub targets: Vec<String>,
    pub internal: bool,
    pub content: Vec<C>,
}

#[derive(Clone, Debug, PartialEq)]
pub struct DataDecl {
    pub id: String,
    pub expr: Option<X>,
}

#[derive(Clone, Debug, PartialEq)]
pub struct DoneData {
    pub params: Vec<(String, X)>,
    pub content: Option<X>,
}

#[derive(Clone, Debug, PartialEq)]
pub struct State {
    pub id: String,
    pub kind: Kind,
    pub initial: Initial,
    pub children: Vec<State>,
    pub transitions: Vec<Trans>,
    pub onentry: Vec<Vec<C>>,
    pub onexit: Vec<Vec<C>>,
    pub data: Vec<DataDecl>,
    pub donedata: Option<DoneData>,
    pub invokes: Vec<InvokeSpec>,
}

#[derive(Clone, Debug, PartialEq)]
pub struct Doc {
    pub dm: DM,
    pub late_binding: bool,
    pub name: String,
    /// initial attribute of <scxml>
    pub initial: Option<Vec<String>>,
    pub data: Vec<DataDecl>,
    pub states: Vec<State>,
}

impl Doc {
    pub fn new(dm: DM, states: Vec<State>) -> Doc {
        Doc { dm, late_binding: false, name: "gen".into(), initial: None, data: vec![], states }
    }
}

impl State {
    pub fn new(id: &str, kind: Kind) -> State {
        State { id: id.to_string(), kind, initial: Initial::Default, children: vec![], transitions: vec![], onentry: vec![], onexit: vec![], data: vec![], donedata: None, invokes: vec![] }
    }
    pub fn is_history(&self) -> bool {
        matches!(self.kind, Kind::History { .. })
    }
    pub fn real_children(&self) -> impl Iterator<Item = &State> {
        self.children.iter().filter(|c| !c.is_history())
    }
}

// ------------------------------------------------------------------------------------------
// flat view used by generator and reference model

#[derive(Clone, Debug)]
pub struct Flat {
    pub id: String,
    pub kind: Kind,
    pub parent: Option<usize>,
    /// all children in document order (incl. history)
    pub children: Vec<usize>,
    pub depth: usize,
}

/// States in document order; index = document position.
pub fn flatten(doc: &Doc) -> Vec<Flat> {
    fn walk(s: &State, parent: Option<usize>, depth: usize, out: &mut Vec<Flat>) -> usize {
        let me = out.len();
        out.push(Flat { id: s.id.clone(), kind: s.kind.clone(), parent, children: vec![], depth });
        for c in &s.children {
            let ci = walk(c, Some(me), depth + 1, out);
            out[me].children.push(ci);
        }
        me
    }
    let mut out = Vec::new();
    for s in &doc.states {
        walk(s, None, 0, &mut out);
    }
    out
}

pub fn find_state<'a>(doc: &'a Doc, id: &str) -> Option<&'a State> {
    fn walk<'a>(s: &'a State, id: &str) -> Option<&'a State> {
        if s.id == id {
            return Some(s);
        }
        for c in &s.children {
            if let Some(x) = walk(c, id) {
                return Some(x);
            }
        }
        None
    }
    for s in &doc.states {
        if let Some(x) = walk(s, id) {
            return Some(x);
        }
    }
    None
}

fn for_each_state_mut(doc: &mut Doc, f: &mut dyn FnMut(&mut State)) {
    fn walk(s: &mut State, f: &mut dyn FnMut(&mut State)) {
        f(s);
        for c in s.children.iter_mut() {
            walk(c, f);
        }
    }
    for s in doc.states.iter_mut() {
        walk(s, f);
    }
}

pub fn for_each_state(doc: &Doc, f: &mut dyn FnMut(&State)) {
    fn walk(s: &State, f: &mut dyn FnMut(&State)) {
        f(s);
        for c in &s.children {
            walk(c, f);
        }
    }
    for s in &doc.states {
        walk(s, f);
    }
}

// ------------------------------------------------------------------------------------------
// generator

/// Weight table ("profile") of the document generator.
#[derive(Clone, Debug)]
pub struct Profile {
    pub max_states: usize,
    pub max_depth: usize,
    pub pct_parallel: u32,
    pub pct_compound: u32,
    pub pct_final: u32,
    pub pct_history: u32,
    pub pct_initial_attr: u32,
    pub pct_initial_elem: u32,
    pub max_trans: usize,
    pub pct_eventless: u32,
    pub pct_cond: u32,
    pub pct_targetless: u32,
    pub pct_multi_target: u32,
    pub pct_internal: u32,
    pub pct_history_target: u32,
    pub pct_final_target: u32,
    pub pct_raise: u32,
    pub pct_send_internal: u32,
    pub pct_send_self: u32,
    pub pct_done_handlers: u32,
    pub pct_wildcard: u32,
    /// weights of data models: null, rfsm, ecma
    pub dm_weights: [u32; 3],
    pub marks: bool,
    pub mark_in_args: bool,
    pub max_events: usize,
    pub pct_unknown_event: u32,
    /// give every region of every parallel a final child
    pub region_finals: bool,
    /// eventless transitions additionally guarded by the value of `v`
    pub pct_data_guard: u32,
    /// transition content increments `v`
    pub pct_assign_v: u32,
}

impl Profile {
    pub fn structure() -> Profile {
        Profile {
            max_states: 14,
            max_depth: 4,
            pct_parallel: 22,
            pct_compound: 35,
            pct_final: 8,
            pct_history: 35,
            pct_initial_attr: 30,
            pct_initial_elem: 20,
            max_trans: 3,
            pct_eventless: 12,
            pct_cond: 35,
            pct_targetless: 12,
            pct_multi_target: 12,
            pct_internal: 25,
            pct_history_target: 30,
            pct_final_target: 0,
            pct_raise: 15,
            pct_send_internal: 4,
            pct_send_self: 0,
            pct_done_handlers: 20,
            pct_wildcard: 8,
            dm_weights: [30, 60, 10],
            marks: true,
            mark_in_args: true,
            max_events: 12,
            pct_unknown_event: 10,
            region_finals: false,
            pct_data_guard: 25,
            pct_assign_v: 25,
        }
    }
    pub fn queues() -> Profile {
        let mut p = Profile::structure();
        p.max_states = 10;
        p.pct_eventless = 30;
        p.pct_raise = 45;
        p.pct_send_internal = 25;
        p.pct_send_self = 25;
        p.pct_done_handlers = 40;
        p.pct_final = 15;
        p.dm_weights = [0, 85, 15];
        p.pct_data_guard = 60;
        p.pct_assign_v = 45;
        p.pct_targetless = 30;
        p
    }
    /// small machines in which targetless handlers of internal events change the data that
    /// guards eventless transitions
    pub fn queues_data() -> Profile {
        let mut p = Profile::queues();
        p.max_states = 6;
        p.max_depth = 3;
        p.pct_targetless = 50;
        p.pct_data_guard = 85;
        p.pct_assign_v = 70;
        p.pct_raise = 60;
        p.pct_eventless = 40;
        p.pct_history = 10;
        p.dm_weights = [0, 90, 10];
        p
    }
    pub fn history() -> Profile {
        let mut p = Profile::structure();
        p.pct_history = 85;
        p.pct_history_target = 60;
        p.pct_compound = 45;
        p.pct_parallel = 25;
        p.dm_weights = [15, 75, 10];
        p
    }
    pub fn finals() -> Profile {
        let mut p = Profile::structure();
        p.pct_final = 45;
        p.pct_final_target = 45;
        p.region_finals = true;
        p.max_events = 16;
        p.pct_parallel = 30;
        p.pct_done_handlers = 60;
        p.pct_history = 10;
        p.dm_weights = [10, 75, 15];
        p
    }
}

pub const EVENT_NAMES: [&str; 7] = ["a", "b", "c", "a.b", "a.b.c", "b.x", "ab"];
pub const DESCRIPTORS: [&str; 9] = ["a", "b", "c", "a.b", "a.*", "b.", "a.b.c", "ab", "b.x"];
pub const COUNTER_LIMIT: i64 = 5;

struct Gen<'a, 'b> {
    t: &'a mut Tape<'b>,
    p: &'a Profile,
    n_states: usize,
    next_id: usize,
    next_hid: usize,
    dm: DM,
}

impl<'a, 'b> Gen<'a, 'b> {
    fn new_id(&mut self) -> String {
        let i = self.next_id;
        self.next_id += 1;
        format!("s{}", i)
    }

    fn gen_children(&mut self, parent_kind: &Kind, depth: usize) -> Vec<State> {
        // number of (real) children
        let want = match parent_kind {
            Kind::Parallel => 2 + self.t.below(2),
            _ => 1 + self.t.below(4),
        };
        let mut v: Vec<State> = Vec::new();
        let mut finals = 0;
        for k in 0..want {
            if self.n_states >= self.p.max_states && !(matches!(parent_kind, Kind::Parallel) && k < 2) && k >= 1 {
                break;
            }
            self.n_states += 1;
            let can_nest = depth + 1 < self.p.max_depth && self.n_states + 2 <= self.p.max_states;
            let id = self.new_id();
            let is_parallel_parent = matches!(parent_kind, Kind::Parallel);
            let choice = if can_nest && self.t.chance(self.p.pct_parallel) {
                0
            } else if can_nest && self.t.chance(self.p.pct_compound) {
                1
            } else if !is_parallel_parent && k > 0 && finals == 0 && self.t.chance(self.p.pct_final) {
                2
            } else {
                3
            };
            let kind = match choice {
                0 => Kind::Parallel,
                2 => {
                    finals += 1;
                    Kind::Final
                }
                _ => Kind::State,
            };
            let mut s = State::new(&id, kind.clone());
            if choice <= 1 {
                s.children = self.gen_children(&kind, depth + 1);
                // history pseudo-states
                if self.t.chance(self.p.pct_history) {
                    let n = if self.t.chance(20) { 2 } else { 1 };
                    for j in 0..n {
                        let hid = format!("h{}", self.next_hid);
                        self.next_hid += 1;
                        let deep = if n == 2 { j == 1 } else { self.t.bool() };
                        let h = State::new(&hid, Kind::History { deep });
                        // position among the children: first, last or in between (document order matters for nothing but is varied)
                        let pos = self.t.below(s.children.len() + 1);
                        s.children.insert(pos, h);
                    }
                }
            }
            v.push(s);
        }
        v
    }
}

fn descendants_of(flat: &[Flat], i: usize, out: &mut Vec<usize>) {
    for c in &flat[i].children {
        out.push(*c);
        descendants_of(flat, *c, out);
    }
}

fn is_ancestor(flat: &[Flat], anc: usize, mut s: usize) -> bool {
    while let Some(p) = flat[s].parent {
        if p == anc {
            return true;
        }
        s = p;
    }
    false
}

/// Picks a legal multi-target specification: two states in distinct regions of one parallel.
fn pick_multi_target(t: &mut Tape, flat: &[Flat], within: Option<usize>) -> Option<Vec<usize>> {
    let parallels: Vec<usize> = (0..flat.len())
        .filter(|i| matches!(flat[*i].kind, Kind::Parallel) && within.map(|w| is_ancestor(flat, w, *i)).unwrap_or(true))
        .collect();
    if parallels.is_empty() {
        return None;
    }
    let p = parallels[t.below(parallels.len())];
    let regions: Vec<usize> = flat[p].children.iter().cloned().filter(|c| !matches!(flat[*c].kind, Kind::History { .. })).collect();
    if regions.len() < 2 {
        return None;
    }
    let a = t.below(regions.len());
    let mut b = t.below(regions.len() - 1);
    if b >= a {
        b += 1;
    }
    let mut out = Vec::new();
    for r in [regions[a], regions[b]] {
        let mut cands = vec![r];
        let mut d = Vec::new();
        descendants_of(flat, r, &mut d);
        // no history states in multi-target specs (their dereferenced value may overlap the other target)
        cands.extend(d.into_iter().filter(|x| !matches!(flat[*x].kind, Kind::History { .. })));
        out.push(cands[t.below(cands.len())]);
    }
    Some(out)
}

pub fn gen_doc(t: &mut Tape, p: &Profile) -> Doc {
    let dm = match t.weighted(&p.dm_weights) {
        0 => DM::Null,
        1 => DM::Rfsm,
        _ => DM::Ecma,
    };
    let late = t.chance(20);
    let mut g = Gen { t, p, n_states: 0, next_id: 0, next_hid: 0, dm };
    let top = g.gen_children(&Kind::State, 0);
    let mut doc = Doc { dm, late_binding: late, name: "gen".to_string(), initial: None, data: vec![], states: top };
    let _ = g.dm;
    let t = g.t;
    if p.region_finals {
        // every region of every parallel gets a final child, so that parallels can complete
        let mut k = 0usize;
        fn fix(s: &mut State, is_region: bool, k: &mut usize) {
            if is_region && matches!(s.kind, Kind::State) {
                if s.children.iter().all(|c| c.is_history()) {
                    s.children.push(State::new(&format!("sa{}", *k), Kind::State));
                }
                if !s.children.iter().any(|c| matches!(c.kind, Kind::Final)) {
                    s.children.push(State::new(&format!("sf{}", *k), Kind::Final));
                }
                *k += 1;
            }
            let par = matches!(s.kind, Kind::Parallel);
            for c in s.children.iter_mut() {
                fix(c, par, k);
            }
        }
        for s in doc.states.iter_mut() {
            fix(s, false, &mut k);
        }
    }
    if dm != DM::Null {
        doc.data.push(DataDecl { id: "cnt".into(), expr: Some(X::Int(0)) });
        doc.data.push(DataDecl { id: "v".into(), expr: Some(X::Int(0)) });
    }
    let flat = flatten(&doc);
    let n = flat.len();
    let non_hist: Vec<usize> = (0..n).filter(|i| !matches!(flat[*i].kind, Kind::History { .. })).collect();
    let all_ids: Vec<String> = flat.iter().map(|f| f.id.clone()).collect();

    // scxml initial attribute
    if t.chance(p.pct_initial_attr) {
        if t.chance(25) {
            if let Some(m) = pick_multi_target(t, &flat, None) {
                doc.initial = Some(m.into_iter().map(|i| all_ids[i].clone()).collect());
            }
        }
        if doc.initial.is_none() {
            let pick = non_hist[t.below(non_hist.len())];
            doc.initial = Some(vec![all_ids[pick].clone()]);
        }
    }

    // per-state decoration; decisions are taken in document order from the tape
    let mut plans: Vec<(usize, Initial, Vec<Trans>, Option<Trans>)> = Vec::new();
    for i in 0..n {
        let f = &flat[i];
        let mut initial = Initial::Default;
        let mut trans: Vec<Trans> = Vec::new();
        let mut hist_default: Option<Trans> = None;
        let real_children: Vec<usize> = f.children.iter().cloned().filter(|c| !matches!(flat[*c].kind, Kind::History { .. })).collect();
        match f.kind {
            Kind::State if !real_children.is_empty() => {
                let mut desc = Vec::new();
                descendants_of(&flat, i, &mut desc);
                let attr = t.chance(p.pct_initial_attr);
                let elem = !attr && t.chance(p.pct_initial_elem);
                if attr || elem {
                    let mut targets: Option<Vec<usize>> = None;
                    if t.chance(20) {
                        targets = pick_multi_target(t, &flat, Some(i));
                    }
                    let targets = targets.unwrap_or_else(|| {
                        let cands: Vec<usize> = if t.chance(6) { desc.clone() } else { desc.iter().cloned().filter(|d| !matches!(flat[*d].kind, Kind::History { .. })).collect() };
                        vec![cands[t.below(cands.len())]]
                    });
                    let ids: Vec<String> = targets.into_iter().map(|x| all_ids[x].clone()).collect();
                    initial = if attr {
                        Initial::Attr(ids)
                    } else {
                        let content = if p.marks && dm != DM::Null { vec![C::Mark { tag: format!("init:{}", f.id), args: vec![] }] } else { vec![] };
                        Initial::Elem(ids, content)
                    };
                }
            }
            Kind::History { deep } => {
                let parent = f.parent.unwrap();
                let siblings: Vec<usize> = flat[parent].children.iter().cloned().filter(|c| !matches!(flat[*c].kind, Kind::History { .. })).collect();
                let mut cands = siblings.clone();
                if deep {
                    let mut d = Vec::new();
                    descendants_of(&flat, parent, &mut d);
                    cands = d.into_iter().filter(|x| !matches!(flat[*x].kind, Kind::History { .. })).collect();
                }
                let mut targets = vec![cands[t.below(cands.len())]];
                if deep && t.chance(20) {
                    if let Some(m) = pick_multi_target(t, &flat, Some(parent)) {
                        targets = m;
                    }
                }
                let content = if p.marks && dm != DM::Null { vec![C::Mark { tag: format!("hist:{}", f.id), args: vec![] }] } else { vec![] };
                hist_default = Some(Trans { events: vec![], cond: None, targets: targets.into_iter().map(|x| all_ids[x].clone()).collect(), internal: false, content });
            }
            _ => {}
        }
        // outgoing transitions
        if !matches!(f.kind, Kind::Final | Kind::History { .. }) {
            let nt = t.below(p.max_trans + 1);
            for k in 0..nt {
                let tag = format!("tr:{}#{}", f.id, k);
                let mut tr = Trans { events: vec![], cond: None, targets: vec![], internal: false, content: vec![] };
                let eventless = dm != DM::Null && t.chance(p.pct_eventless);
                if !eventless {
                    let ne = 1 + t.below(2);
                    for _ in 0..ne {
                        let d = if t.chance(p.pct_wildcard) {
                            "*".to_string()
                        } else if t.chance(p.pct_done_handlers) {
                            // done.state.<some compound/parallel id>, or a prefix of it
                            let comp: Vec<&Flat> = flat.iter().filter(|x| !x.children.is_empty()).collect();
                            if comp.is_empty() || t.chance(25) {
                                "done.state".to_string()
                            } else {
                                format!("done.state.{}", comp[t.below(comp.len())].id)
                            }
                        } else {
                            DESCRIPTORS[t.below(DESCRIPTORS.len())].to_string()
                        };
                        if !tr.events.contains(&d) {
                            tr.events.push(d);
                        }
                    }
                }
                // targets
                if eventless || !t.chance(p.pct_targetless) {
                    let mut targets: Option<Vec<usize>> = None;
                    if t.chance(p.pct_multi_target) {
                        targets = pick_multi_target(t, &flat, None);
                    }
                    let targets = targets.unwrap_or_else(|| {
                        let hist: Vec<usize> = (0..n).filter(|x| matches!(flat[*x].kind, Kind::History { .. })).collect();
                        let finals: Vec<usize> = (0..n).filter(|x| matches!(flat[*x].kind, Kind::Final)).collect();
                        if !hist.is_empty() && t.chance(p.pct_history_target) {
                            vec![hist[t.below(hist.len())]]
                        } else if !finals.is_empty() && t.chance(p.pct_final_target) {
                            vec![finals[t.below(finals.len())]]
                        } else {
                            vec![non_hist[t.below(non_hist.len())]]
                        }
                    });
                    tr.targets = targets.into_iter().map(|x| all_ids[x].clone()).collect();
                }
                tr.internal = t.chance(p.pct_internal);
                // transitions that can be triggered by interpreter-generated events (done.state.*) would
                // loop if they re-enter a final state: bounded by the counter, like eventless ones
                let by_platform_event = tr.events.iter().any(|e| e == "*" || e.starts_with("done"));
                if by_platform_event && dm == DM::Null {
                    tr.targets.clear();
                }
                // condition
                if by_platform_event && dm != DM::Null && !tr.targets.is_empty() {
                    tr.cond = Some(X::Lt(Box::new(X::Var("cnt".into())), Box::new(X::Int(COUNTER_LIMIT))));
                    tr.content.push(C::Assign { var: "cnt".into(), expr: X::Add(Box::new(X::Var("cnt".into())), Box::new(X::Int(1))) });
                } else if eventless {
                    // guarded by the counter, which the transition itself increments: no livelock
                    let mut c = X::Lt(Box::new(X::Var("cnt".into())), Box::new(X::Int(COUNTER_LIMIT)));
                    if t.chance(30) {
                        let s = &all_ids[non_hist[t.below(non_hist.len())]];
                        c = X::And(Box::new(c), Box::new(X::In(s.clone())));
                    }
                    if t.chance(p.pct_data_guard) {
                        // becomes enabled only after some content has changed `v`
                        let g = if t.bool() { X::Eq(Box::new(X::Var("v".into())), Box::new(X::Int(t.range(1, 3)))) } else { X::Lt(Box::new(X::Int(t.range(0, 2))), Box::new(X::Var("v".into()))) };
                        c = X::And(Box::new(c), Box::new(g));
                    }
                    tr.cond = Some(c);
                    tr.content.push(C::Assign { var: "cnt".into(), expr: X::Add(Box::new(X::Var("cnt".into())), Box::new(X::Int(1))) });
                } else if t.chance(p.pct_cond) {
                    let s = &all_ids[non_hist[t.below(non_hist.len())]];
                    let base = X::In(s.clone());
                    tr.cond = Some(match if dm == DM::Null { t.below(2) } else { t.below(5) } {
                        0 => base,
                        1 => {
                            if dm == DM::Null {
                                base
                            } else {
                                X::Not(Box::new(base))
                            }
                        }
                        2 => X::Lt(Box::new(X::Var("v".into())), Box::new(X::Int(t.range(0, 3)))),
                        3 => X::Bool(t.bool()),
                        _ => X::Eq(Box::new(X::Var("v".into())), Box::new(X::Int(t.range(0, 2)))),
                    });
                }
                if dm != DM::Null {
                    if p.marks {
                        let mut args = vec![];
                        if p.mark_in_args && t.chance(40) {
                            args.push(X::In(all_ids[non_hist[t.below(non_hist.len())]].clone()));
                        }
                        tr.content.push(C::Mark { tag, args });
                    }
                    if t.chance(p.pct_assign_v) {
                        tr.content.push(C::Assign { var: "v".into(), expr: X::Add(Box::new(X::Var("v".into())), Box::new(X::Int(1))) });
                    }
                    gen_queue_content(t, p, &mut tr.content);
                }
                trans.push(tr);
            }
        }
        plans.push((i, initial, trans, hist_default));
    }
    // entry/exit content
    let mut entry_exit: Vec<(Vec<Vec<C>>, Vec<Vec<C>>)> = Vec::new();
    for i in 0..n {
        let f = &flat[i];
        let mut en: Vec<Vec<C>> = Vec::new();
        let mut ex: Vec<Vec<C>> = Vec::new();
        if dm != DM::Null && !matches!(f.kind, Kind::History { .. }) && p.marks {
            let nb = 1 + if t.chance(15) { 1 } else { 0 };
            for b in 0..nb {
                let mut blk = vec![];
                let mut args = vec![];
                if p.mark_in_args && t.chance(35) {
                    args.push(X::In(all_ids[non_hist[t.below(non_hist.len())]].clone()));
                }
                blk.push(C::Mark { tag: format!("en:{}:{}", f.id, b), args });
                if t.chance(12) {
                    gen_queue_content(t, p, &mut blk);
                }
                en.push(blk);
            }
            let mut args = vec![];
            if p.mark_in_args && t.chance(35) {
                args.push(X::In(all_ids[non_hist[t.below(non_hist.len())]].clone()));
            }
            let mut blk = vec![C::Mark { tag: format!("ex:{}:0", f.id), args }];
            if t.chance(8) {
                gen_queue_content(t, p, &mut blk);
            }
            ex.push(blk);
        }
        entry_exit.push((en, ex));
    }
    // apply plans
    let mut idx = 0usize;
    for_each_state_mut(&mut doc, &mut |s: &mut State| {
        let (i, initial, trans, hist_default) = plans[idx].clone();
        debug_assert_eq!(i, idx);
        s.initial = initial;
        s.transitions = trans;
        if let Some(h) = hist_default {
            s.transitions = vec![h];
        }
        s.onentry = entry_exit[idx].0.clone();
        s.onexit = entry_exit[idx].1.clone();
        idx += 1;
    });
    doc
}

/// raise / internal send / self send, each guarded by the global counter (bounded chains)
fn gen_queue_content(t: &mut Tape, p: &Profile, out: &mut Vec<C>) {
    let mut items = vec![];
    if t.chance(p.pct_raise) {
        items.push(C::Raise(EVENT_NAMES[t.below(EVENT_NAMES.len())].to_string()));
    }
    if t.chance(p.pct_send_internal) {
        items.push(C::SendInternal(EVENT_NAMES[t.below(EVENT_NAMES.len())].to_string()));
    }
    if t.chance(p.pct_send_self) {
        items.push(C::SendSelf(EVENT_NAMES[t.below(EVENT_NAMES.len())].to_string()));
    }
    if !items.is_empty() {
        let mut then = vec![C::Assign { var: "cnt".into(), expr: X::Add(Box::new(X::Var("cnt".into())), Box::new(X::Int(1))) }];
        then.extend(items);
        out.push(C::If { branches: vec![(X::Lt(Box::new(X::Var("cnt".into())), Box::new(X::Int(COUNTER_LIMIT))), then)], els: None });
    }
}

/// External event script of a case.
pub fn gen_events(t: &mut Tape, p: &Profile, doc: &Doc) -> Vec<String> {
    let n = t.below(p.max_events + 1);
    let mut used: Vec<String> = Vec::new();
    for_each_state(doc, &mut |s: &State| {
        for tr in &s.transitions {
            for e in &tr.events {
                let base = e.trim_end_matches(".*").trim_end_matches('.').to_string();
                if base != "*" && !base.starts_with("done.") && !used.contains(&base) {
                    used.push(base);
                }
            }
        }
    });
    let mut v = Vec::new();
    for _ in 0..n {
        if t.chance(p.pct_unknown_event) || used.is_empty() {
            v.push(EVENT_NAMES[t.below(EVENT_NAMES.len())].to_string());
        } else {
            let b = used[t.below(used.len())].clone();
            // the event itself or a longer name with that prefix
            v.push(match t.below(4) {
                0 => format!("{}.z", b),
                _ => b,
            });
        }
    }
    v
}
