//! Runs one SCXML session of the real interpreter deterministically and projects what it did
//! onto the reference trace format (DESIGN.md §2.1): recording tracer, `mark` action,
//! configuration snapshots taken from `ScxmlSession.global_data`.

use crate::engine::last_panic;
use crate::refmodel::{Mode, Rec, CANCEL};
use rufsm::actions::{Action, ActionWrapper};
use rufsm::datamodel::{Data, GlobalDataArc};
use rufsm::fsm::{Event, FinishMode, Fsm, GlobalData, State};
use rufsm::fsm_executor::FsmExecutor;
use rufsm::tracer::{TraceMode, Tracer};
use std::collections::{HashMap, VecDeque};
use std::fmt::{Debug, Display};
use std::sync::mpsc::Sender;
use std::sync::{Arc, Condvar, Mutex};
use std::time::{Duration, Instant};

/// What the harness shares with the tracer / mark action of one session.
pub struct Shared {
    pub log: Mutex<Vec<Rec>>,
    /// raw observations for the invariant checks (C01): (kind, state name) inside microsteps
    pub start: Mutex<Option<StartInfo>>,
    pub go: Condvar,
    pub id_names: Mutex<HashMap<u32, String>>,
    pub doc_pos: Mutex<HashMap<u32, u32>>,
    pub trans_labels: Mutex<HashMap<u32, String>>,
    pub history_ids: Mutex<Vec<(u32, String)>>,
    pub root_id: Mutex<u32>,
    pub feed: Mutex<VecDeque<Event>>,
    /// every dequeued event with all its fields, in the order of the IntDeq/ExtDeq records
    pub events_seen: Mutex<Vec<Event>>,
    pub last_enabled: Mutex<Vec<u32>>,
    pub violations: Mutex<Vec<String>>,
}

pub struct StartInfo {
    pub global: GlobalDataArc,
    pub sender: Sender<Box<Event>>,
    pub mode: Mode,
}

impl Shared {
    pub fn new() -> Arc<Shared> {
        Arc::new(Shared {
            log: Mutex::new(Vec::new()),
            start: Mutex::new(None),
            go: Condvar::new(),
            id_names: Mutex::new(HashMap::new()),
            doc_pos: Mutex::new(HashMap::new()),
            trans_labels: Mutex::new(HashMap::new()),
            history_ids: Mutex::new(Vec::new()),
            root_id: Mutex::new(0),
            feed: Mutex::new(VecDeque::new()),
            events_seen: Mutex::new(Vec::new()),
            last_enabled: Mutex::new(Vec::new()),
            violations: Mutex::new(Vec::new()),
        })
    }

    /// names in document order, the implicit <scxml> state filtered out
    fn names_of(&self, ids: impl Iterator<Item = u32>) -> Vec<String> {
        let map = self.id_names.lock().unwrap();
        let pos = self.doc_pos.lock().unwrap();
        let root = *self.root_id.lock().unwrap();
        let mut v: Vec<u32> = ids.filter(|i| *i != root).collect();
        v.sort_by_key(|i| pos.get(i).cloned().unwrap_or(u32::MAX));
        v.into_iter().map(|i| map.get(&i).cloned().unwrap_or_else(|| format!("#{}", i))).collect()
    }

    fn snapshot_cfg(&self) -> Option<Vec<String>> {
        let st = self.start.lock().unwrap();
        let st = st.as_ref()?;
        let g = st.global.lock().ok()?;
        Some(self.names_of(g.configuration.iterator().cloned()))
    }

    fn snapshot_hist(&self) -> Vec<(String, Vec<String>)> {
        let st = self.start.lock().unwrap();
        let Some(st) = st.as_ref() else { return vec![] };
        let Ok(g) = st.global.lock() else { return vec![] };
        let mut out = Vec::new();
        for (hid, hname) in self.history_ids.lock().unwrap().iter() {
            if g.historyValue.has(*hid) {
                let v = self.names_of(g.historyValue.get(*hid).iterator().cloned());
                out.push((hname.clone(), v));
            }
        }
        out
    }
}

pub struct RecordingTracer {
    pub sh: Arc<Shared>,
}

impl Debug for RecordingTracer {
    fn fmt(&self, f: &mut std::fmt::Formatter<'_>) -> std::fmt::Result {
        write!(f, "RecordingTracer")
    }
}

fn parse_id_list(s: &str) -> Vec<u32> {
    s.trim_matches(|c| c == '[' || c == ']').split(',').filter_map(|x| x.trim().parse::<u32>().ok()).collect()
}

impl Tracer for RecordingTracer {
    fn trace(&self, _msg: &str) {}
    fn enter(&self) {}
    fn leave(&self) {}
    fn enable_trace(&mut self, _flag: TraceMode) {}
    fn disable_trace(&mut self, _flag: TraceMode) {}
    fn is_trace(&self, _flag: TraceMode) -> bool {
        true
    }
    fn trace_mode(&self) -> TraceMode {
        TraceMode::ALL
    }

    fn enter_method(&self, what: &str) {
        match what {
            "interpret" => {
                // wait until the harness has stored the session handles (and pre-queued its events)
                let mut g = self.sh.start.lock().unwrap();
                let deadline = Instant::now() + Duration::from_secs(10);
                while g.is_none() {
                    let (ng, to) = self.sh.go.wait_timeout(g, Duration::from_millis(200)).unwrap();
                    g = ng;
                    if to.timed_out() && Instant::now() > deadline {
                        break;
                    }
                }
            }
            "microstep" => {
                let en = self.sh.last_enabled.lock().unwrap().clone();
                let labels = self.sh.trans_labels.lock().unwrap();
                let v: Vec<String> = en.iter().map(|t| labels.get(t).cloned().unwrap_or_else(|| format!("?{}", t))).collect();
                drop(labels);
                self.sh.log.lock().unwrap().push(Rec::Sel(v));
            }
            "externalQueue.dequeue" => {
                let cfg = self.sh.snapshot_cfg().unwrap_or_default();
                let hist = self.sh.snapshot_hist();
                self.sh.log.lock().unwrap().push(Rec::Idle(cfg, hist));
                // fed-at-idle: the next host event is queued here, on the session thread itself
                let st = self.sh.start.lock().unwrap();
                if let Some(st) = st.as_ref() {
                    if st.mode == Mode::FedAtIdle {
                        if let Some(ev) = self.sh.feed.lock().unwrap().pop_front() {
                            let _ = st.sender.send(Box::new(ev));
                        }
                    }
                }
            }
            _ => {}
        }
    }

    fn exit_method(&self, what: &str) {
        if what == "enterStates" {
            if let Some(cfg) = self.sh.snapshot_cfg() {
                self.sh.log.lock().unwrap().push(Rec::Cfg(cfg));
            } else {
                self.sh.violations.lock().unwrap().push("configuration not readable (global data locked or poisoned) at the end of enterStates".into());
            }
        }
    }

    fn event_internal_send(&self, what: &Event) {
        self.sh.log.lock().unwrap().push(Rec::ISend(what.name.clone()));
    }

    fn event_internal_received(&self, what: &Event) {
        self.sh.log.lock().unwrap().push(Rec::IntDeq(what.name.clone()));
        self.sh.events_seen.lock().unwrap().push(what.clone());
    }

    fn event_external_send(&self, _what: &Event) {}

    fn event_external_received(&mut self, what: &Event) {
        self.sh.log.lock().unwrap().push(Rec::ExtDeq(what.name.clone()));
        self.sh.events_seen.lock().unwrap().push(what.clone());
    }

    fn trace_enter_state(&self, s: &State) {
        // the implicit <scxml> wrapper state is not a state of the document
        if s.id != *self.sh.root_id.lock().unwrap() {
            self.sh.log.lock().unwrap().push(Rec::Enter(s.name.clone()));
        }
    }

    fn trace_exit_state(&self, s: &State) {
        if s.id != *self.sh.root_id.lock().unwrap() {
            self.sh.log.lock().unwrap().push(Rec::Exit(s.name.clone()));
        }
    }

    fn trace_argument(&self, _what: &str, _d: &dyn Display) {}

    fn trace_result(&self, what: &str, d: &dyn Display) {
        if what == "enabledTransitions" {
            *self.sh.last_enabled.lock().unwrap() = parse_id_list(&d.to_string());
        }
    }
}

/// Tracer given to every Fsm the reader creates (the global tracer factory): counts the sessions
/// that are inside interpret(), i.e. invoked children of the case that is running. The main
/// document's tracer is replaced by a RecordingTracer before its session starts.
pub static CHILD_ACTIVE: std::sync::atomic::AtomicI32 = std::sync::atomic::AtomicI32::new(0);
pub static CHILD_STARTED: std::sync::atomic::AtomicU32 = std::sync::atomic::AtomicU32::new(0);

#[derive(Debug)]
pub struct ChildTracer;

impl Tracer for ChildTracer {
    fn trace(&self, _msg: &str) {}
    fn enter(&self) {}
    fn leave(&self) {}
    fn enable_trace(&mut self, _flag: TraceMode) {}
    fn disable_trace(&mut self, _flag: TraceMode) {}
    fn is_trace(&self, _flag: TraceMode) -> bool {
        false
    }
    fn trace_mode(&self) -> TraceMode {
        TraceMode::NONE
    }
    fn enter_method(&self, what: &str) {
        if what == "interpret" {
            CHILD_ACTIVE.fetch_add(1, std::sync::atomic::Ordering::SeqCst);
            CHILD_STARTED.fetch_add(1, std::sync::atomic::Ordering::SeqCst);
        }
    }
    fn exit_method(&self, what: &str) {
        if what == "interpret" {
            CHILD_ACTIVE.fetch_sub(1, std::sync::atomic::Ordering::SeqCst);
        }
    }
    fn event_internal_send(&self, _what: &Event) {}
    fn event_internal_received(&self, _what: &Event) {}
    fn event_external_send(&self, _what: &Event) {}
    fn event_external_received(&mut self, _what: &Event) {}
    fn trace_enter_state(&self, _s: &State) {}
    fn trace_exit_state(&self, _s: &State) {}
    fn trace_argument(&self, _what: &str, _d: &dyn Display) {}
    fn trace_result(&self, _what: &str, _d: &dyn Display) {}
}

pub struct ChildTracerFactory;

impl rufsm::tracer::TracerFactory for ChildTracerFactory {
    fn create(&mut self) -> Box<dyn Tracer> {
        Box::new(ChildTracer)
    }
}

pub fn install_child_tracer_factory() {
    rufsm::tracer::set_tracer_factory(Box::new(ChildTracerFactory));
}

/// Waits until no invoked session is inside interpret() any more; returns how many still are.
pub fn wait_children(timeout: Duration) -> i32 {
    let deadline = Instant::now() + timeout;
    loop {
        let n = CHILD_ACTIVE.load(std::sync::atomic::Ordering::SeqCst);
        if n <= 0 || Instant::now() > deadline {
            CHILD_ACTIVE.store(0, std::sync::atomic::Ordering::SeqCst);
            return n.max(0);
        }
        std::thread::sleep(Duration::from_micros(200));
    }
}

/// The `mark(tag, args...)` custom action: the observation point inside executable content.
pub struct MarkAction {
    pub sh: Arc<Shared>,
}

impl Action for MarkAction {
    fn execute(&self, arguments: &[Data], _global: &GlobalData) -> Result<Data, String> {
        let tag = arguments.first().map(|d| d.to_string()).unwrap_or_default();
        let args: Vec<String> = arguments.iter().skip(1).map(|d| d.to_string()).collect();
        self.sh.log.lock().unwrap().push(Rec::Mark(tag, args));
        Ok(Data::Null())
    }
    fn get_copy(&self) -> Box<dyn Action> {
        Box::new(MarkAction { sh: self.sh.clone() })
    }
}

pub struct RunResult {
    pub trace: Vec<Rec>,
    pub final_cfg: Option<Vec<String>>,
    pub panicked: Option<String>,
    pub timed_out: bool,
    pub tracer_violations: Vec<String>,
    pub state_order: Vec<String>,
    pub events_seen: Vec<Event>,
    pub session_id: u32,
}

pub fn parse(xml: &str) -> Result<Box<Fsm>, String> {
    let r = std::panic::catch_unwind(|| rufsm::scxml_reader::parse_from_xml(xml.to_string()));
    match r {
        Ok(r) => r,
        Err(_) => Err(format!("reader panicked: {}", last_panic())),
    }
}

/// Maps of the parsed model that the projection needs.
fn prepare(fsm: &Fsm, sh: &Shared) -> Vec<String> {
    let mut names = sh.id_names.lock().unwrap();
    let mut hist = sh.history_ids.lock().unwrap();
    let mut labels = sh.trans_labels.lock().unwrap();
    let mut order: Vec<(u32, String)> = Vec::new();
    for s in fsm.states.iter() {
        names.insert(s.id, s.name.clone());
        sh.doc_pos.lock().unwrap().insert(s.id, s.doc_id);
        order.push((s.doc_id, s.name.clone()));
        if s.history_type != rufsm::fsm::HistoryType::None {
            hist.push((s.id, s.name.clone()));
        }
        for (k, tid) in s.transitions.iterator().enumerate() {
            labels.insert(*tid, format!("{}#{}", s.name, k));
        }
        if s.initial != 0 {
            labels.insert(s.initial, format!("{}#init", s.name));
        }
    }
    *sh.root_id.lock().unwrap() = fsm.pseudo_root;
    hist.sort_by(|a, b| a.1.cmp(&b.1));
    order.sort();
    order.into_iter().map(|x| x.1).collect()
}

/// Runs `fsm` with the given host events; returns the projected trace.
pub fn run_session(fsm: Box<Fsm>, events: &[String], mode: Mode, timeout: Duration) -> RunResult {
    let evs: Vec<Event> = events.iter().map(|e| Event::new_simple(e)).collect();
    run_session_events(fsm, &evs, mode, timeout)
}

/// Same, with complete host events (fields, params, content).
pub fn run_session_events(mut fsm: Box<Fsm>, events: &[Event], mode: Mode, timeout: Duration) -> RunResult {
    let sh = Shared::new();
    let state_order = prepare(&fsm, &sh);
    fsm.tracer = Box::new(RecordingTracer { sh: sh.clone() });
    let mut actions = ActionWrapper::new();
    actions.add_action("mark", Box::new(MarkAction { sh: sh.clone() }));
    let executor = FsmExecutor::new_without_io_processor();
    // the repository's own conformance setting for ECMAScript (test/w3c/test_config.json)
    executor.state.lock().unwrap().datamodel_options.insert("ecma:strict".to_string(), String::new());
    let mut session = rufsm::fsm::start_fsm_with_data_and_finish_mode(fsm, actions, Box::new(executor.clone()), &[], FinishMode::KEEP_CONFIGURATION);
    // the session thread is parked in the tracer ("interpret") until `start` is filled
    {
        let mut st = sh.start.lock().unwrap();
        match mode {
            Mode::PreQueued => {
                for e in events {
                    let _ = session.sender.send(Box::new(e.clone()));
                }
                let _ = session.sender.send(Box::new(Event::new_simple(CANCEL)));
            }
            Mode::FedAtIdle => {
                let mut f = sh.feed.lock().unwrap();
                for e in events {
                    f.push_back(e.clone());
                }
                f.push_back(Event::new_simple(CANCEL));
            }
        }
        *st = Some(StartInfo { global: session.global_data.clone(), sender: session.sender.clone(), mode });
        sh.go.notify_all();
    }
    // join with timeout
    let handle = session.thread.take().unwrap();
    let deadline = Instant::now() + timeout;
    let mut timed_out = false;
    while !handle.is_finished() {
        if Instant::now() > deadline {
            timed_out = true;
            break;
        }
        std::thread::sleep(Duration::from_micros(100));
    }
    let mut panicked = None;
    if !timed_out {
        if handle.join().is_err() {
            panicked = Some(last_panic());
        }
    }
    let final_cfg = match session.global_data.try_lock() {
        Ok(g) => g.final_configuration.clone().map(|v| {
            let root_name = sh.id_names.lock().unwrap().get(&*sh.root_id.lock().unwrap()).cloned().unwrap_or_default();
            v.into_iter().filter(|n| *n != root_name).collect()
        }),
        Err(_) => None,
    };
    let trace = sh.log.lock().unwrap().clone();
    let tracer_violations = sh.violations.lock().unwrap().clone();
    // break the reference cycle session -> global data -> executor -> sessions
    if let Ok(mut st) = executor.state.lock() {
        st.sessions.clear();
    }
    let events_seen = sh.events_seen.lock().unwrap().clone();
    RunResult { trace, final_cfg, panicked, timed_out, tracer_violations, state_order, events_seen, session_id: session.session_id }
}

/// First difference between two traces, rendered with some context.
pub fn diff_traces(expected: &[Rec], got: &[Rec]) -> Option<String> {
    let n = expected.len().max(got.len());
    for i in 0..n {
        let e = expected.get(i);
        let g = got.get(i);
        if e != g {
            let from = i.saturating_sub(6);
            let mut s = format!("first difference at record {}:\n", i);
            for k in from..i {
                s.push_str(&format!("    {:?}\n", expected[k]));
            }
            s.push_str(&format!("  expected: {}\n", e.map(|x| format!("{:?}", x)).unwrap_or_else(|| "<end of trace>".into())));
            s.push_str(&format!("  observed: {}\n", g.map(|x| format!("{:?}", x)).unwrap_or_else(|| "<end of trace>".into())));
            for k in 1..4 {
                if let (Some(a), Some(b)) = (expected.get(i + k), got.get(i + k)) {
                    s.push_str(&format!("    then expected {:?} / observed {:?}\n", a, b));
                }
            }
            return Some(s);
        }
    }
    None
}

pub fn rec_kind(r: &Rec) -> &'static str {
    match r {
        Rec::Sel(_) => "Sel",
        Rec::Exit(_) => "Exit",
        Rec::Enter(_) => "Enter",
        Rec::Mark(..) => "Mark",
        Rec::ISend(_) => "ISend",
        Rec::IntDeq(_) => "IntDeq",
        Rec::ExtDeq(_) => "ExtDeq",
        Rec::Cfg(_) => "Cfg",
        Rec::Idle(..) => "Idle",
    }
}
