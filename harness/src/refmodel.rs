//! Reference SCXML interpreter: an independent implementation of "Algorithm for SCXML
//! Interpretation" (W3C Recommendation, appendix D) over the document AST.  It shares no code
//! or data structure with rFSM and emits the trace format the real run is projected to.
//! DESIGN.md §2.3.

use crate::doc::*;
use crate::expr::V;
use std::collections::{BTreeMap, BTreeSet, VecDeque};

pub const ROOT: usize = usize::MAX;
pub const CANCEL: &str = "error.platform.cancel";

#[derive(Clone, Debug, PartialEq)]
pub enum Rec {
    /// transitions selected for the microstep that follows ("state#index")
    Sel(Vec<String>),
    Exit(String),
    Enter(String),
    Mark(String, Vec<String>),
    /// event put on the internal queue by the interpreter itself (done.state.*)
    ISend(String),
    IntDeq(String),
    ExtDeq(String),
    /// configuration after start-up / after a microstep
    Cfg(Vec<String>),
    /// waiting for the next external event: configuration and history values
    Idle(Vec<String>, Vec<(String, Vec<String>)>),
}

#[derive(Clone, Debug)]
pub struct RTrans {
    pub source: usize,
    pub label: String,
    pub events: Vec<String>,
    pub cond: Option<X>,
    pub targets: Vec<usize>,
    pub internal: bool,
    pub content: Vec<C>,
}

#[derive(Clone, Debug)]
pub struct RState {
    pub id: String,
    pub kind: Kind,
    pub parent: usize,
    pub children: Vec<usize>, // real children
    pub history: Vec<usize>,
    pub transitions: Vec<RTrans>,
    pub initial: Option<RTrans>,
    pub onentry: Vec<Vec<C>>,
    pub onexit: Vec<Vec<C>>,
    pub data: Vec<DataDecl>,
    pub donedata: Option<DoneData>,
}

pub struct Model {
    pub dm: DM,
    pub late: bool,
    pub states: Vec<RState>,
    pub root_children: Vec<usize>,
    pub root_initial: RTrans,
    pub root_data: Vec<DataDecl>,
}

pub fn normalise_descriptor(d: &str) -> String {
    let mut r = d;
    loop {
        if let Some(x) = r.strip_suffix(".*") {
            r = x;
            continue;
        }
        if let Some(x) = r.strip_suffix('.') {
            r = x;
            continue;
        }
        break;
    }
    r.to_string()
}

/// Token-prefix matching of event descriptors (W3C 3.12.1).
pub fn name_match(descriptors: &[String], name: &str) -> bool {
    let nt: Vec<&str> = name.split('.').collect();
    for d in descriptors {
        if d == "*" {
            return true;
        }
        let n = normalise_descriptor(d);
        if n == "*" {
            return true;
        }
        let dt: Vec<&str> = n.split('.').collect();
        if dt.len() <= nt.len() && dt.iter().zip(nt.iter()).all(|(a, b)| a == b) {
            return true;
        }
    }
    false
}

impl Model {
    pub fn build(doc: &Doc) -> Model {
        let flat = flatten(doc);
        let idx_of = |id: &str| flat.iter().position(|f| f.id == id).expect("target id exists");
        let mut states: Vec<RState> = Vec::new();
        let mut by_doc: Vec<&State> = Vec::new();
        for_each_state_ref(doc, &mut |s| by_doc.push(s));
        for (i, f) in flat.iter().enumerate() {
            let s = by_doc[i];
            let mut transitions = Vec::new();
            for (k, t) in s.transitions.iter().enumerate() {
                transitions.push(RTrans {
                    source: i,
                    label: format!("{}#{}", s.id, k),
                    events: t.events.clone(),
                    cond: t.cond.clone(),
                    targets: t.targets.iter().map(|x| idx_of(x)).collect(),
                    internal: t.internal,
                    content: t.content.clone(),
                });
            }
            let real: Vec<usize> = f.children.iter().cloned().filter(|c| !matches!(flat[*c].kind, Kind::History { .. })).collect();
            let hist: Vec<usize> = f.children.iter().cloned().filter(|c| matches!(flat[*c].kind, Kind::History { .. })).collect();
            let initial = if matches!(f.kind, Kind::State) && !real.is_empty() {
                Some(match &s.initial {
                    Initial::Default => RTrans { source: i, label: format!("{}#init", s.id), events: vec![], cond: None, targets: vec![real[0]], internal: false, content: vec![] },
                    Initial::Attr(t) => RTrans { source: i, label: format!("{}#init", s.id), events: vec![], cond: None, targets: t.iter().map(|x| idx_of(x)).collect(), internal: false, content: vec![] },
                    Initial::Elem(t, c) => RTrans { source: i, label: format!("{}#init", s.id), events: vec![], cond: None, targets: t.iter().map(|x| idx_of(x)).collect(), internal: false, content: c.clone() },
                })
            } else {
                None
            };
            states.push(RState {
                id: f.id.clone(),
                kind: f.kind.clone(),
                parent: f.parent.unwrap_or(ROOT),
                children: real,
                history: hist,
                transitions,
                initial,
                onentry: s.onentry.clone(),
                onexit: s.onexit.clone(),
                data: s.data.clone(),
                donedata: s.donedata.clone(),
            });
        }
        let root_children: Vec<usize> = (0..flat.len()).filter(|i| flat[*i].parent.is_none()).collect();
        let root_targets = match &doc.initial {
            Some(t) => t.iter().map(|x| idx_of(x)).collect(),
            None => vec![root_children[0]],
        };
        Model {
            dm: doc.dm,
            late: doc.late_binding,
            states,
            root_children,
            root_initial: RTrans { source: ROOT, label: "scxml#init".into(), events: vec![], cond: None, targets: root_targets, internal: false, content: vec![] },
            root_data: doc.data.clone(),
        }
    }

    fn is_history(&self, s: usize) -> bool {
        matches!(self.states[s].kind, Kind::History { .. })
    }
    fn is_parallel(&self, s: usize) -> bool {
        s != ROOT && matches!(self.states[s].kind, Kind::Parallel)
    }
    fn is_final(&self, s: usize) -> bool {
        matches!(self.states[s].kind, Kind::Final)
    }
    fn is_compound(&self, s: usize) -> bool {
        s != ROOT && matches!(self.states[s].kind, Kind::State) && !self.states[s].children.is_empty()
    }
    fn is_atomic(&self, s: usize) -> bool {
        self.states[s].children.is_empty() && !self.is_history(s)
    }
    fn parent(&self, s: usize) -> usize {
        self.states[s].parent
    }
    /// ancestors of s in ancestry order, up to but not including `stop` (ROOT is included when stop is None)
    fn proper_ancestors(&self, s: usize, stop: Option<usize>) -> Vec<usize> {
        let mut v = Vec::new();
        if s == ROOT {
            return v;
        }
        if let Some(st) = stop {
            // W3C: empty if state2 is state1 itself or a descendant of state1
            if st == s || (st != ROOT && self.is_descendant(st, s)) {
                return v;
            }
        }
        let mut c = self.parent(s);
        loop {
            if Some(c) == stop {
                break;
            }
            v.push(c);
            if c == ROOT {
                break;
            }
            c = self.parent(c);
        }
        v
    }
    pub fn is_descendant(&self, s1: usize, s2: usize) -> bool {
        if s1 == ROOT || s1 == s2 {
            return false;
        }
        let mut c = self.parent(s1);
        loop {
            if c == s2 {
                return true;
            }
            if c == ROOT {
                return false;
            }
            c = self.parent(c);
        }
    }
}

fn for_each_state_ref<'a>(doc: &'a Doc, f: &mut dyn FnMut(&'a State)) {
    fn walk<'a>(s: &'a State, f: &mut dyn FnMut(&'a State)) {
        f(s);
        for c in &s.children {
            walk(c, f);
        }
    }
    for s in &doc.states {
        walk(s, f);
    }
}

#[derive(Clone, Debug)]
pub struct QEvent {
    pub name: String,
}

#[derive(Default, Clone, Debug)]
pub struct Stats {
    pub microsteps: usize,
    pub macrosteps: usize,
    pub max_selected: usize,
    pub multi_candidate: bool,
    pub preemption: bool,
    pub multi_state_change: bool,
    pub history_reentry_nondefault: bool,
    pub history_default_used: bool,
    pub internal_while_external_waiting: bool,
    pub eventless_and_internal_in_one_macrostep: bool,
    pub parallel_done: bool,
    pub done_events: usize,
    pub shutdown_with_queued: usize,
    pub reached_top_final: bool,
    pub errors: usize,
    pub livelock: bool,
}

pub struct Interp<'a> {
    pub m: &'a Model,
    pub cfg: BTreeSet<usize>,
    pub hist: BTreeMap<usize, Vec<usize>>,
    pub store: BTreeMap<String, V>,
    pub internal: VecDeque<QEvent>,
    pub external: VecDeque<QEvent>,
    pub running: bool,
    pub trace: Vec<Rec>,
    pub stats: Stats,
    pub event: Option<String>,
    pub first_entry_done: BTreeSet<usize>,
    /// events the host feeds one at a time at each idle point (fed-at-idle mode)
    pub feed: VecDeque<String>,
    /// configuration at shutdown (reported to the host)
    pub final_cfg: Vec<String>,
    /// variant of the semantics of an erroring <if>/<elseif> condition (see exec)
    pub if_error_aborts: bool,
    /// a value left the range in which all data models agree
    pub out_of_domain: std::cell::Cell<bool>,
    /// one entry per idle point: the complete state (configuration, history, data) as text
    pub idle_keys: Vec<String>,
}

#[derive(Clone, Copy, PartialEq, Debug)]
pub enum Mode {
    /// all host events (and the final cancel) are queued before the session starts
    PreQueued,
    /// the next host event is put into the queue each time the session becomes idle
    FedAtIdle,
}

pub const MAX_MICROSTEPS_PER_MACROSTEP: usize = 200;

impl<'a> Interp<'a> {
    pub fn new(m: &'a Model) -> Interp<'a> {
        Interp {
            m,
            cfg: BTreeSet::new(),
            hist: BTreeMap::new(),
            store: BTreeMap::new(),
            internal: VecDeque::new(),
            external: VecDeque::new(),
            running: true,
            trace: Vec::new(),
            stats: Stats::default(),
            event: None,
            first_entry_done: BTreeSet::new(),
            feed: VecDeque::new(),
            final_cfg: Vec::new(),
            if_error_aborts: false,
            out_of_domain: std::cell::Cell::new(false),
            idle_keys: Vec::new(),
        }
    }

    fn names(&self, set: impl IntoIterator<Item = usize>) -> Vec<String> {
        let mut v: Vec<usize> = set.into_iter().collect();
        v.sort();
        v.into_iter().map(|i| self.m.states[i].id.clone()).collect()
    }

    pub fn cfg_names(&self) -> Vec<String> {
        self.names(self.cfg.iter().cloned())
    }

    fn hist_names(&self) -> Vec<(String, Vec<String>)> {
        let mut v: Vec<(String, Vec<String>)> = self.hist.iter().map(|(h, v)| (self.m.states[*h].id.clone(), self.names(v.iter().cloned()))).collect();
        v.sort();
        v
    }

    // ---------------------------------------------------------------- expressions / content

    pub fn eval(&self, x: &X) -> Result<V, ()> {
        Ok(match x {
            X::Int(i) => V::Int(*i),
            X::Bool(b) => V::Bool(*b),
            X::Str(s) => V::Str(s.clone()),
            X::Var(v) => self.store.get(v).cloned().ok_or(())?,
            X::In(s) => V::Bool(self.cfg.iter().any(|c| self.m.states[*c].id == *s)),
            X::Not(a) => match self.eval(a)? {
                V::Bool(b) => V::Bool(!b),
                _ => return Err(()),
            },
            X::And(a, b) => match (self.eval(a)?, self.eval(b)?) {
                (V::Bool(p), V::Bool(q)) => V::Bool(p && q),
                _ => return Err(()),
            },
            X::Or(a, b) => match (self.eval(a)?, self.eval(b)?) {
                (V::Bool(p), V::Bool(q)) => V::Bool(p || q),
                _ => return Err(()),
            },
            X::Eq(a, b) => {
                let (p, q) = (self.eval(a)?, self.eval(b)?);
                V::Bool(crate::expr::struct_eq(&p, &q))
            }
            X::Lt(a, b) => match (self.eval(a)?, self.eval(b)?) {
                (V::Int(p), V::Int(q)) => V::Bool(p < q),
                _ => return Err(()),
            },
            X::Add(a, b) => match (self.eval(a)?, self.eval(b)?) {
                (V::Int(p), V::Int(q)) => {
                    // beyond 2^31 the data models differ (Integer saturation vs. IEEE doubles): such
                    // cases are outside the common language; the run is abandoned (counted as discard)
                    let r = p.saturating_add(q);
                    if r.abs() > (1i64 << 31) {
                        self.out_of_domain.set(true);
                    }
                    V::Int(r)
                }
                (V::Str(p), V::Str(q)) => V::Str(format!("{}{}", p, q)),
                _ => return Err(()),
            },
            X::EventName => V::Str(self.event.clone().ok_or(())?),
            X::IntArr(a) => V::Arr(a.iter().map(|i| V::Int(*i)).collect()),
            X::Bad(_) | X::Raw(_) => return Err(()),
        })
    }

    fn truthy(v: &V) -> bool {
        match v {
            V::Bool(b) => *b,
            V::Int(i) => *i != 0,
            V::Dbl(d) => *d != 0.0 && !d.is_nan(),
            V::Str(s) => !s.is_empty(),
            V::Arr(_) | V::Map(_) => true,
            _ => false,
        }
    }

    fn error_execution(&mut self) {
        self.stats.errors += 1;
        self.internal.push_back(QEvent { name: "error.execution".into() });
    }

    /// condition: an evaluation error counts as false and raises error.execution
    fn cond(&mut self, x: &Option<X>) -> bool {
        match x {
            None => true,
            Some(x) => match self.eval(x) {
                Ok(v) => Self::truthy(&v),
                Err(()) => {
                    self.error_execution();
                    false
                }
            },
        }
    }

    fn show(v: &V) -> String {
        match v {
            V::Int(i) => i.to_string(),
            V::Bool(b) => b.to_string(),
            V::Str(s) => s.clone(),
            V::Dbl(d) => d.to_string(),
            V::Null => "null".into(),
            V::NoneV => "".into(),
            other => format!("{:?}", other),
        }
    }

    /// executes a block; returns false if it was aborted by an error
    pub fn exec_block(&mut self, block: &[C]) -> bool {
        if self.m.dm == DM::Null {
            // the null data model has no executable content support in rFSM (nothing runs)
            return true;
        }
        for c in block {
            if !self.exec(c) {
                return false;
            }
        }
        true
    }

    fn exec(&mut self, c: &C) -> bool {
        match c {
            C::Mark { tag, args } => {
                let mut vals = Vec::new();
                for a in args {
                    match self.eval(a) {
                        Ok(v) => vals.push(Self::show(&v)),
                        Err(()) => {
                            self.error_execution();
                            return false;
                        }
                    }
                }
                self.trace.push(Rec::Mark(tag.clone(), vals));
                true
            }
            C::Raise(e) | C::SendInternal(e) => {
                if !self.external.is_empty() {
                    self.stats.internal_while_external_waiting = true;
                }
                self.internal.push_back(QEvent { name: e.clone() });
                true
            }
            C::SendSelf(e) => {
                self.external.push_back(QEvent { name: e.clone() });
                true
            }
            C::Assign { var, expr } => match self.eval(expr) {
                Ok(v) => {
                    if self.store.contains_key(var) {
                        self.store.insert(var.clone(), v);
                        true
                    } else {
                        self.error_execution();
                        false
                    }
                }
                Err(()) => {
                    self.error_execution();
                    false
                }
            },
            C::If { branches, els } => {
                for (cnd, body) in branches {
                    match self.eval(cnd) {
                        Ok(v) => {
                            if Self::truthy(&v) {
                                return self.exec_block(body);
                            }
                        }
                        Err(()) => {
                            // W3C 5.9.1: the condition counts as false and error.execution is raised.
                            // Whether the rest of the block is abandoned as well is accepted either way.
                            self.error_execution();
                            if self.if_error_aborts {
                                return false;
                            }
                        }
                    }
                }
                if let Some(e) = els {
                    return self.exec_block(e);
                }
                true
            }
            C::ForEach { array, item, index, body } => match self.eval(array) {
                // W3C 4.6: an 'item' that is no legal variable name terminates the foreach and the
                // enclosing block with error.execution
                Ok(V::Arr(_)) if item == crate::contentgen::ILLEGAL_ITEM && self.m.dm == DM::Ecma => {
                    self.error_execution();
                    false
                }
                Ok(V::Arr(items)) => {
                    for (i, it) in items.iter().enumerate() {
                        self.store.insert(item.clone(), it.clone());
                        if let Some(ix) = index {
                            self.store.insert(ix.clone(), V::Int(i as i64));
                        }
                        if !self.exec_block(body) {
                            return false;
                        }
                    }
                    true
                }
                _ => {
                    self.error_execution();
                    false
                }
            },
            C::Log(x) | C::Script(x) | C::LogLabel { expr: x, .. } => match self.eval(x) {
                Ok(_) => true,
                Err(()) => {
                    self.error_execution();
                    false
                }
            },
            C::Send(s) => {
                // modelled subset: target absent (own external queue) or '#_internal', no delay;
                // an argument that fails to evaluate discards the message and raises error.execution
                let failing = |o: &Option<String>| o.as_ref().map(|x| crate::contentgen::is_bad(x)).unwrap_or(false);
                if failing(&s.eventexpr) || failing(&s.targetexpr) || failing(&s.delayexpr) || failing(&s.typeexpr) || s.namelist.iter().any(|n| !self.store.contains_key(n)) {
                    self.error_execution();
                    return false;
                }
                let name = match (&s.event, &s.eventexpr) {
                    (Some(e), _) => e.clone(),
                    (None, Some(x)) => x.trim_matches('\'').to_string(),
                    _ => String::new(),
                };
                match s.target.as_deref() {
                    Some("#_internal") => self.internal.push_back(QEvent { name }),
                    None => self.external.push_back(QEvent { name }),
                    _ => {}
                }
                true
            }
            // only used in documents that are parsed / serialised but never executed by the model
            C::Cancel { .. } | C::AssignText { .. } => true,
        }
    }

    // ---------------------------------------------------------------- algorithm

    fn init_data(&mut self, data: &[DataDecl]) {
        for d in data {
            let v = match &d.expr {
                Some(x) => match self.eval(x) {
                    Ok(v) => v,
                    Err(()) => {
                        self.error_execution();
                        V::NoneV
                    }
                },
                None => V::Null,
            };
            self.store.insert(d.id.clone(), v);
        }
    }

    fn effective_targets(&self, t: &RTrans) -> Vec<usize> {
        let mut out: Vec<usize> = Vec::new();
        for s in &t.targets {
            if self.m.is_history(*s) {
                if let Some(h) = self.hist.get(s) {
                    for x in h {
                        if !out.contains(x) {
                            out.push(*x);
                        }
                    }
                } else {
                    for x in self.effective_targets(&self.m.states[*s].transitions[0]) {
                        if !out.contains(&x) {
                            out.push(x);
                        }
                    }
                }
            } else if !out.contains(s) {
                out.push(*s);
            }
        }
        out
    }

    fn find_lcca(&self, list: &[usize]) -> usize {
        let head = list[0];
        for anc in self.m.proper_ancestors(head, None) {
            if anc == ROOT || self.m.is_compound(anc) {
                if list[1..].iter().all(|s| self.m.is_descendant(*s, anc) || (anc == ROOT && *s != ROOT)) {
                    return anc;
                }
            }
        }
        ROOT
    }

    /// None = targetless (no domain)
    fn transition_domain(&self, t: &RTrans) -> Option<usize> {
        let tstates = self.effective_targets(t);
        if tstates.is_empty() {
            return None;
        }
        if t.source == ROOT {
            return Some(ROOT);
        }
        if t.internal && self.m.is_compound(t.source) && tstates.iter().all(|s| self.m.is_descendant(*s, t.source)) {
            return Some(t.source);
        }
        let mut l = vec![t.source];
        l.extend(tstates);
        Some(self.find_lcca(&l))
    }

    fn exit_set(&self, ts: &[&RTrans]) -> BTreeSet<usize> {
        let mut out = BTreeSet::new();
        for t in ts {
            if t.targets.is_empty() {
                continue;
            }
            if let Some(domain) = self.transition_domain(t) {
                for s in &self.cfg {
                    if domain == ROOT || self.m.is_descendant(*s, domain) {
                        out.insert(*s);
                    }
                }
            }
        }
        out
    }

    fn remove_conflicting<'t>(&mut self, enabled: Vec<&'t RTrans>) -> Vec<&'t RTrans> {
        let mut filtered: Vec<&RTrans> = Vec::new();
        for t1 in enabled.iter() {
            let mut preempted = false;
            let mut to_remove: Vec<usize> = Vec::new();
            for (k, t2) in filtered.iter().enumerate() {
                let e1 = self.exit_set(&[t1]);
                let e2 = self.exit_set(&[t2]);
                if e1.intersection(&e2).next().is_some() {
                    if self.m.is_descendant(t1.source, t2.source) {
                        to_remove.push(k);
                    } else {
                        preempted = true;
                        break;
                    }
                }
            }
            if !preempted {
                if !to_remove.is_empty() {
                    self.stats.preemption = true;
                }
                for k in to_remove.into_iter().rev() {
                    filtered.remove(k);
                }
                filtered.push(t1);
            } else {
                self.stats.preemption = true;
            }
        }
        filtered
    }

    fn select(&mut self, event: Option<&str>) -> Vec<RTrans> {
        let m = self.m;
        let atomic: Vec<usize> = self.cfg.iter().cloned().filter(|s| m.is_atomic(*s)).collect();
        let mut enabled: Vec<&RTrans> = Vec::new();
        for s in atomic {
            let mut chain = vec![s];
            chain.extend(m.proper_ancestors(s, None).into_iter().filter(|x| *x != ROOT));
            let mut candidates = 0;
            'outer: for st in chain {
                for t in &m.states[st].transitions {
                    let matches = match event {
                        None => t.events.is_empty(),
                        Some(name) => !t.events.is_empty() && name_match(&t.events, name),
                    };
                    if matches {
                        candidates += 1;
                        if self.cond(&t.cond) {
                            if !enabled.iter().any(|e| std::ptr::eq(*e, t)) {
                                enabled.push(t);
                            }
                            // count remaining candidates of this atomic state for the statistics only
                            break 'outer;
                        }
                    }
                }
            }
            if candidates >= 2 {
                self.stats.multi_candidate = true;
            }
        }
        let filtered = self.remove_conflicting(enabled);
        filtered.into_iter().cloned().collect()
    }

    fn add_descendants(&mut self, s: usize, to_enter: &mut Vec<usize>, default_entry: &mut Vec<usize>, hist_content: &mut BTreeMap<usize, Vec<C>>) {
        let m = self.m;
        if m.is_history(s) {
            let parent = m.parent(s);
            if let Some(hv) = self.hist.get(&s).cloned() {
                for x in &hv {
                    self.add_descendants(*x, to_enter, default_entry, hist_content);
                }
                for x in &hv {
                    self.add_ancestors(*x, parent, to_enter, default_entry, hist_content);
                }
            } else {
                let t = &m.states[s].transitions[0];
                hist_content.insert(parent, t.content.clone());
                self.stats.history_default_used = true;
                for x in &t.targets {
                    self.add_descendants(*x, to_enter, default_entry, hist_content);
                }
                for x in &t.targets {
                    self.add_ancestors(*x, parent, to_enter, default_entry, hist_content);
                }
            }
        } else {
            if !to_enter.contains(&s) {
                to_enter.push(s);
            }
            if m.is_compound(s) {
                if !default_entry.contains(&s) {
                    default_entry.push(s);
                }
                let t = m.states[s].initial.as_ref().unwrap();
                for x in &t.targets {
                    self.add_descendants(*x, to_enter, default_entry, hist_content);
                }
                for x in &t.targets {
                    self.add_ancestors(*x, s, to_enter, default_entry, hist_content);
                }
            } else if m.is_parallel(s) {
                for c in &m.states[s].children {
                    if !to_enter.iter().any(|x| m.is_descendant(*x, *c)) {
                        self.add_descendants(*c, to_enter, default_entry, hist_content);
                    }
                }
            }
        }
    }

    fn add_ancestors(&mut self, s: usize, ancestor: usize, to_enter: &mut Vec<usize>, default_entry: &mut Vec<usize>, hist_content: &mut BTreeMap<usize, Vec<C>>) {
        let m = self.m;
        for anc in m.proper_ancestors(s, Some(ancestor)) {
            if anc == ROOT {
                break;
            }
            if !to_enter.contains(&anc) {
                to_enter.push(anc);
            }
            if m.is_parallel(anc) {
                for c in &m.states[anc].children {
                    if !to_enter.iter().any(|x| m.is_descendant(*x, *c)) {
                        self.add_descendants(*c, to_enter, default_entry, hist_content);
                    }
                }
            }
        }
    }

    fn is_in_final_state(&self, s: usize) -> bool {
        let m = self.m;
        if m.is_compound(s) {
            m.states[s].children.iter().any(|c| m.is_final(*c) && self.cfg.contains(c))
        } else if m.is_parallel(s) {
            m.states[s].children.iter().all(|c| self.is_in_final_state(*c))
        } else {
            false
        }
    }

    fn enter_states(&mut self, ts: &[RTrans]) {
        let m = self.m;
        let mut to_enter: Vec<usize> = Vec::new();
        let mut default_entry: Vec<usize> = Vec::new();
        let mut hist_content: BTreeMap<usize, Vec<C>> = BTreeMap::new();
        for t in ts {
            // history re-entry statistics
            for tg in &t.targets {
                if m.is_history(*tg) {
                    if let Some(hv) = self.hist.get(tg) {
                        let def = self.effective_targets(&m.states[*tg].transitions[0]);
                        if *hv != def {
                            self.stats.history_reentry_nondefault = true;
                        }
                    }
                }
            }
            for s in &t.targets {
                self.add_descendants(*s, &mut to_enter, &mut default_entry, &mut hist_content);
            }
            if let Some(ancestor) = self.transition_domain(t) {
                for s in self.effective_targets(t) {
                    self.add_ancestors(s, ancestor, &mut to_enter, &mut default_entry, &mut hist_content);
                }
            }
        }
        to_enter.sort();
        for s in to_enter {
            self.trace.push(Rec::Enter(m.states[s].id.clone()));
            self.cfg.insert(s);
            if m.late && !self.first_entry_done.contains(&s) {
                self.first_entry_done.insert(s);
                let d = m.states[s].data.clone();
                self.init_data(&d);
            }
            for b in &m.states[s].onentry {
                self.exec_block(b);
            }
            if default_entry.contains(&s) {
                let c = m.states[s].initial.as_ref().unwrap().content.clone();
                self.exec_block(&c);
            }
            if let Some(c) = hist_content.get(&s).cloned() {
                self.exec_block(&c);
            }
            if m.is_final(s) {
                let parent = m.parent(s);
                if parent == ROOT {
                    self.running = false;
                    self.stats.reached_top_final = true;
                } else {
                    let name = format!("done.state.{}", m.states[parent].id);
                    self.trace.push(Rec::ISend(name.clone()));
                    self.internal.push_back(QEvent { name });
                    self.stats.done_events += 1;
                    let grandparent = m.parent(parent);
                    if m.is_parallel(grandparent) && m.states[grandparent].children.iter().all(|c| self.is_in_final_state(*c)) {
                        let name = format!("done.state.{}", m.states[grandparent].id);
                        self.trace.push(Rec::ISend(name.clone()));
                        self.internal.push_back(QEvent { name });
                        self.stats.parallel_done = true;
                        self.stats.done_events += 1;
                    }
                }
            }
        }
    }

    fn exit_states(&mut self, ts: &[RTrans]) {
        let m = self.m;
        let refs: Vec<&RTrans> = ts.iter().collect();
        let to_exit: Vec<usize> = self.exit_set(&refs).into_iter().rev().collect();
        for s in &to_exit {
            for h in &m.states[*s].history {
                let deep = matches!(m.states[*h].kind, Kind::History { deep: true });
                let v: Vec<usize> = if deep {
                    self.cfg.iter().cloned().filter(|s0| m.is_atomic(*s0) && m.is_descendant(*s0, *s)).collect()
                } else {
                    self.cfg.iter().cloned().filter(|s0| m.parent(*s0) == *s).collect()
                };
                self.hist.insert(*h, v);
            }
        }
        for s in to_exit {
            self.trace.push(Rec::Exit(m.states[s].id.clone()));
            for b in &m.states[s].onexit {
                self.exec_block(b);
            }
            self.cfg.remove(&s);
        }
    }

    fn microstep(&mut self, ts: &[RTrans]) {
        self.stats.microsteps += 1;
        self.stats.max_selected = self.stats.max_selected.max(ts.len());
        self.trace.push(Rec::Sel(ts.iter().map(|t| t.label.clone()).collect()));
        let before = self.cfg.clone();
        self.exit_states(ts);
        for t in ts {
            self.exec_block(&t.content);
        }
        self.enter_states(ts);
        let changed = before.symmetric_difference(&self.cfg).count();
        if changed >= 2 {
            self.stats.multi_state_change = true;
        }
        self.trace.push(Rec::Cfg(self.cfg_names()));
    }

    fn exit_interpreter(&mut self) {
        let m = self.m;
        self.final_cfg = self.cfg_names();
        let to_exit: Vec<usize> = self.cfg.iter().cloned().rev().collect();
        for s in to_exit {
            for b in &m.states[s].onexit {
                self.exec_block(b);
            }
            self.cfg.remove(&s);
        }
    }

    /// Runs the whole session. Returns false if the run was abandoned (livelock guard).
    pub fn run(&mut self, events: &[String], mode: Mode) -> bool {
        let m = self.m;
        match mode {
            Mode::PreQueued => {
                for e in events {
                    self.external.push_back(QEvent { name: e.clone() });
                }
                self.external.push_back(QEvent { name: CANCEL.into() });
            }
            Mode::FedAtIdle => {
                self.feed = events.iter().cloned().collect();
                self.feed.push_back(CANCEL.into());
            }
        }
        // data model
        let rd = m.root_data.clone();
        self.init_data(&rd);
        if !m.late {
            for i in 0..m.states.len() {
                let d = m.states[i].data.clone();
                self.init_data(&d);
            }
        } else {
            // late binding: the data elements exist from load time, without a value
            for i in 0..m.states.len() {
                for d in &m.states[i].data {
                    self.store.insert(d.id.clone(), V::NoneV);
                }
            }
        }
        let init = m.root_initial.clone();
        self.enter_states(&[init]);
        self.trace.push(Rec::Cfg(self.cfg_names()));
        // main event loop
        while self.running {
            let mut steps = 0;
            let mut saw_eventless = false;
            let mut saw_internal = false;
            loop {
                if !self.running {
                    break;
                }
                let mut enabled = self.select(None);
                if !enabled.is_empty() {
                    saw_eventless = true;
                }
                if enabled.is_empty() {
                    if self.internal.is_empty() {
                        break;
                    }
                    let ev = self.internal.pop_front().unwrap();
                    saw_internal = true;
                    self.trace.push(Rec::IntDeq(ev.name.clone()));
                    self.event = Some(ev.name.clone());
                    enabled = self.select(Some(&ev.name));
                }
                if !enabled.is_empty() {
                    self.microstep(&enabled);
                    steps += 1;
                    if steps > MAX_MICROSTEPS_PER_MACROSTEP {
                        self.stats.livelock = true;
                        return false;
                    }
                }
            }
            self.stats.macrosteps += 1;
            if saw_eventless && saw_internal {
                self.stats.eventless_and_internal_in_one_macrostep = true;
            }
            if !self.running {
                break;
            }
            // idle: wait for an external event
            self.trace.push(Rec::Idle(self.cfg_names(), self.hist_names()));
            self.idle_keys.push(format!("{:?}|{:?}|{:?}", self.cfg, self.hist, self.store));
            if mode == Mode::FedAtIdle {
                if let Some(e) = self.feed.pop_front() {
                    self.external.push_back(QEvent { name: e });
                }
            }
            let Some(ev) = self.external.pop_front() else {
                // nothing will ever arrive (only possible if the script lacks the cancel event)
                break;
            };
            self.trace.push(Rec::ExtDeq(ev.name.clone()));
            if ev.name == CANCEL {
                self.running = false;
                continue;
            }
            self.event = Some(ev.name.clone());
            let enabled = self.select(Some(&ev.name));
            if !enabled.is_empty() {
                self.microstep(&enabled);
            }
        }
        self.stats.shutdown_with_queued = self.external.len();
        self.exit_interpreter();
        !self.out_of_domain.get()
    }
}
