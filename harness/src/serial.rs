//! Helpers around the binary .rfsm serializer: write / read through the public API, the model
//! mutation pass that moves ids, delays and strings to arbitrary magnitudes, fault-injecting sinks.

use crate::engine::last_panic;
use crate::tape::Tape;
use rufsm::datamodel::{create_data_arc, Data, SourceCode, ToAny};
use rufsm::executable_content::*;
use rufsm::fsm::*;
use rufsm::serializer::default_protocol_reader::DefaultProtocolReader;
use rufsm::serializer::default_protocol_writer::DefaultProtocolWriter;
use rufsm::serializer::fsm_reader::FsmReader;
use rufsm::serializer::fsm_writer::FsmWriter;
use std::collections::HashMap;
use std::io::Write;

/// (image, writer.has_error())
pub fn write_fsm(fsm: &Fsm) -> Result<(Vec<u8>, bool), String> {
    let r = std::panic::catch_unwind(std::panic::AssertUnwindSafe(|| {
        let mut w: FsmWriter<Vec<u8>> = FsmWriter::new(Box::new(DefaultProtocolWriter::new(Vec::new())));
        w.write(fsm);
        w.close();
        let err = w.writer.has_error();
        (w.get_writer().clone(), err)
    }));
    r.map_err(|_| format!("writer panicked: {}", last_panic()))
}

pub enum ReadOutcome {
    Ok(Box<Fsm>),
    Err(String),
    Panic(String),
}

pub fn read_fsm(bytes: &[u8]) -> ReadOutcome {
    let r = std::panic::catch_unwind(std::panic::AssertUnwindSafe(|| {
        let p = Box::new(DefaultProtocolReader::new(bytes));
        let mut rd = FsmReader::new(p);
        rd.read()
    }));
    match r {
        Ok(Ok(f)) => ReadOutcome::Ok(f),
        Ok(Err(e)) => ReadOutcome::Err(e),
        Err(_) => ReadOutcome::Panic(last_panic()),
    }
}

pub const U32_EDGES: [u32; 16] = [1, 15, 16, 17, 4095, 4096, 4097, (1 << 20) - 1, 1 << 20, (1 << 28) - 1, 1 << 28, (1 << 28) + 1, u32::MAX - 1, u32::MAX, 255, 256];
pub const U64_EDGES: [u64; 22] = [
    0,
    1,
    15,
    16,
    4095,
    4096,
    (1 << 20) - 1,
    1 << 20,
    (1 << 28) - 1,
    1 << 28,
    (1 << 36) - 1,
    1 << 36,
    (1 << 44) - 1,
    1 << 44,
    (1 << 52) - 1,
    1 << 52,
    (1 << 60) - 1,
    1 << 60,
    (1 << 60) + 1,
    i64::MAX as u64,
    u64::MAX - 1,
    u64::MAX,
];
pub const LEN_CLASSES: [usize; 10] = [0, 1, 15, 16, 17, 4094, 4095, 4096, 4097, 9000];

pub fn gen_string(t: &mut Tape, len: usize) -> String {
    // mixed 1-, 2-, 3- and 4-byte characters; the byte length is hit exactly by padding with ASCII
    let alphabet = ["a", "Z", "0", " ", "\u{e9}", "\u{65e5}", "\u{1F600}", "<", "&", "\"", "'", "\n"];
    let mut s = String::new();
    while s.len() < len {
        let c = alphabet[t.below(alphabet.len())];
        if s.len() + c.len() <= len {
            s.push_str(c);
        } else {
            s.push('x');
        }
    }
    s
}

pub fn gen_data(t: &mut Tape, depth: usize) -> Data {
    match t.below(if depth >= 3 { 7 } else { 9 }) {
        0 => Data::Integer(*t.pick(&[0i64, 1, -1, 42, i64::MAX, i64::MIN, 4096])),
        1 => Data::Double(*t.pick(&[0.0f64, 0.5, -2.25, 1e308, 1e-300, f64::INFINITY, f64::NEG_INFINITY, 123456.789])),
        2 => {
            let l = *t.pick(&[0usize, 1, 15, 16, 40]);
            Data::String(gen_string(t, l))
        }
        3 => Data::Boolean(t.bool()),
        4 => Data::Null(),
        5 => Data::None(),
        6 => Data::Source(SourceCode::new("x + 1", t.below(100000))),
        7 => {
            let n = t.below(4);
            Data::Array((0..n).map(|_| create_data_arc(gen_data(t, depth + 1))).collect())
        }
        _ => {
            let n = t.below(4);
            let mut m = HashMap::new();
            for i in 0..n {
                m.insert(format!("k{}", i), create_data_arc(gen_data(t, depth + 1)));
            }
            Data::Map(m)
        }
    }
}

pub struct MutationStats {
    pub width_boundary_hits: usize,
    pub long_strings: usize,
    pub big_delay: bool,
    pub nested_data: bool,
    pub planted: Vec<String>,
}

fn near_edge32(v: u32) -> bool {
    U32_EDGES.iter().any(|e| (*e as i64 - v as i64).abs() <= 1)
}

/// Moves transition/content ids, document ids, source ids, delays, strings and data values of a
/// parsed model to generated magnitudes.  References stay consistent; document order is kept.
pub fn mutate_model(fsm: &mut Fsm, t: &mut Tape) -> MutationStats {
    let mut st = MutationStats { width_boundary_hits: 0, long_strings: 0, big_delay: false, nested_data: false, planted: vec![] };
    // ---- id bijection x -> x*k + c (k odd), 0 stays 0, no collision between the two id spaces needed
    let k: u32 = (t.u32() | 1).max(1);
    let edge = *t.pick(&U32_EDGES);
    let mut all_ids: Vec<u32> = fsm.transitions.keys().cloned().chain(fsm.executableContent.keys().cloned()).collect();
    all_ids.sort();
    let first = all_ids.first().cloned().unwrap_or(1);
    let c: u32 = edge.wrapping_sub(first.wrapping_mul(k));
    let identity = !t.chance(85);
    let map = |x: u32| -> u32 {
        if x == 0 || identity {
            return x;
        }
        let y = x.wrapping_mul(k).wrapping_add(c);
        if y == 0 {
            0x7fff_fff1
        } else {
            y
        }
    };
    // avoid the (astronomically unlikely) collision with 0x7ffffff1 by falling back to identity
    {
        let mut seen = std::collections::HashSet::new();
        if !all_ids.iter().all(|x| seen.insert(map(*x))) {
            return st;
        }
    }
    // document ids: monotone
    let max_doc = fsm.states.iter().map(|s| s.doc_id).chain(fsm.transitions.values().map(|t| t.doc_id)).max().unwrap_or(1).max(1);
    let doc_off = *t.pick(&[0u32, 14, 4000, (1 << 20) - 50, 1 << 27]);
    let doc_stride_max = ((u32::MAX - doc_off) / max_doc).max(1);
    let doc_stride = (1 + t.below(4096) as u32).min(doc_stride_max);
    let doc_identity = !t.chance(70);
    let dmap = |x: u32| -> u32 {
        if x == 0 || doc_identity {
            x
        } else {
            x * doc_stride + doc_off
        }
    };
    // content
    let old_content: Vec<(u32, Vec<Box<dyn ExecutableContent>>)> = fsm.executableContent.drain().collect();
    for (id, mut v) in old_content {
        for ec in v.iter_mut() {
            let any = ec.as_mut().as_any_mut();
            if let Some(x) = any.downcast_mut::<If>() {
                x.content = map(x.content);
                x.else_content = map(x.else_content);
            } else if let Some(x) = any.downcast_mut::<ForEach>() {
                x.content = map(x.content);
            } else if let Some(x) = any.downcast_mut::<Script>() {
                for c in x.content.iter_mut() {
                    *c = map(*c);
                }
            } else if let Some(x) = any.downcast_mut::<SendParameters>() {
                if t.chance(50) {
                    x.delay_ms = *t.pick(&U64_EDGES);
                    if x.delay_ms >= (1 << 60) {
                        st.big_delay = true;
                    }
                }
                if t.chance(15) {
                    let l = *t.pick(&LEN_CLASSES);
                    x.name = gen_string(t, l);
                    if l >= 4096 {
                        st.long_strings += 1;
                    }
                }
            } else if let Some(x) = any.downcast_mut::<Expression>() {
                if t.chance(12) {
                    let l = *t.pick(&LEN_CLASSES);
                    let id = if t.bool() { t.below(1 << 20) } else { *t.pick(&U64_EDGES) as usize };
                    x.content = Data::Source(SourceCode::new(&gen_string(t, l), id));
                    if l >= 4096 {
                        st.long_strings += 1;
                    }
                }
            } else if let Some(x) = any.downcast_mut::<Log>() {
                if t.chance(10) {
                    let l = *t.pick(&LEN_CLASSES);
                    x.label = gen_string(t, l);
                    if l >= 4096 {
                        st.long_strings += 1;
                    }
                }
            }
        }
        let nid = map(id);
        if near_edge32(nid) {
            st.width_boundary_hits += 1;
        }
        fsm.executableContent.insert(nid, v);
    }
    fsm.script = map(fsm.script);
    // transitions
    let old_tr: Vec<(u32, Transition)> = fsm.transitions.drain().collect();
    for (_id, mut tr) in old_tr {
        tr.id = map(tr.id);
        tr.content = map(tr.content);
        tr.doc_id = dmap(tr.doc_id);
        if near_edge32(tr.id) {
            st.width_boundary_hits += 1;
        }
        fsm.transitions.insert(tr.id, tr);
    }
    // states
    for s in fsm.states.iter_mut() {
        s.initial = map(s.initial);
        s.doc_id = dmap(s.doc_id);
        for c in s.onentry.iter_mut() {
            *c = map(*c);
        }
        for c in s.onexit.iter_mut() {
            *c = map(*c);
        }
        let mut nl: List<TransitionId> = List::new();
        for x in s.transitions.iterator() {
            nl.push(map(*x));
        }
        s.transitions = nl;
        let mut ni: List<Invoke> = List::new();
        for inv in s.invoke.iterator() {
            let mut i2 = inv.clone();
            i2.finalize = map(i2.finalize);
            i2.doc_id = dmap(i2.doc_id);
            ni.push(i2);
        }
        s.invoke = ni;
        if t.chance(10) && s.id != fsm.pseudo_root {
            // data values of every kind, nested
            let n = 1 + t.below(3);
            for i in 0..n {
                s.data.insert(format!("gen{}", i), create_data_arc(gen_data(t, 0)));
            }
            st.nested_data = true;
        }
    }
    if t.chance(10) {
        let l = *t.pick(&LEN_CLASSES);
        fsm.name = gen_string(t, l);
        if l >= 4096 {
            st.long_strings += 1;
        }
    }
    // boundary-length strings in arbitrary string slots of the model (every persisted string kind)
    if t.chance(60) {
        let mut n_slots = 0usize;
        for_each_string(fsm, &mut |_, _| n_slots += 1);
        if n_slots > 0 {
            let mut opt_slots: Vec<usize> = Vec::new();
            {
                let mut k = 0usize;
                for_each_string(fsm, &mut |slot, _| {
                    if slot.ends_with(".content") || slot.ends_with(".content_expr") {
                        opt_slots.push(k);
                    }
                    k += 1;
                });
            }
            let picks: Vec<(usize, usize)> = (0..1 + t.below(3))
                .map(|_| {
                    // optional strings (<content>) are a separate encoding path: picked half of the time if present
                    let idx = if !opt_slots.is_empty() && t.bool() { opt_slots[t.below(opt_slots.len())] } else { t.below(n_slots) };
                    (idx, *t.pick(&LEN_CLASSES))
                })
                .collect();
            let texts: Vec<String> = picks.iter().map(|(_, l)| gen_string(t, *l)).collect();
            let mut k = 0usize;
            let mut planted = Vec::new();
            for_each_string(fsm, &mut |slot, s| {
                for (pi, (idx, _)) in picks.iter().enumerate() {
                    // state names must stay unique and invoke ids non-empty keep their meaning: only lengthen those
                    if *idx == k {
                        if slot == "state.name" || slot == "invoke.id" {
                            s.push_str(&texts[pi]);
                        } else {
                            *s = texts[pi].clone();
                        }
                        planted.push(slot.to_string());
                    }
                }
                k += 1;
            });
            for (_, l) in &picks {
                if *l >= 4096 {
                    st.long_strings += 1;
                }
            }
            st.planted = planted;
        }
    }
    st
}

/// Visits every persisted string of the model (incl. the sources of Data::Source values and
/// the present Option<String>s), so that boundary lengths can be planted anywhere.
pub fn for_each_string(fsm: &mut Fsm, f: &mut dyn FnMut(&str, &mut String)) {
    fn data(d: &mut Data, slot: &str, f: &mut dyn FnMut(&str, &mut String)) {
        match d {
            Data::Source(s) => f(slot, &mut s.source),
            Data::String(s) => f(slot, s),
            _ => {}
        }
    }
    fn common(c: &mut Option<CommonContent>, slot: &str, f: &mut dyn FnMut(&str, &mut String)) {
        if let Some(c) = c {
            if let Some(x) = c.content.as_mut() {
                f(&format!("{}.content", slot), x);
            }
            if let Some(x) = c.content_expr.as_mut() {
                f(&format!("{}.content_expr", slot), x);
            }
        }
    }
    fn params(p: &mut Option<Vec<Parameter>>, slot: &str, f: &mut dyn FnMut(&str, &mut String)) {
        if let Some(v) = p {
            for x in v.iter_mut() {
                f(&format!("{}.param.name", slot), &mut x.name);
                f(&format!("{}.param.expr", slot), &mut x.expr);
                f(&format!("{}.param.location", slot), &mut x.location);
            }
        }
    }
    f("fsm.name", &mut fsm.name);
    for s in fsm.states.iter_mut() {
        f("state.name", &mut s.name);
        let mut ni: List<Invoke> = List::new();
        for inv in s.invoke.iterator() {
            let mut i = inv.clone();
            f("invoke.id", &mut i.invoke_id);
            f("invoke.idlocation", &mut i.external_id_location);
            data(&mut i.type_name, "invoke.type", f);
            data(&mut i.type_expr, "invoke.typeexpr", f);
            data(&mut i.src, "invoke.src", f);
            data(&mut i.src_expr, "invoke.srcexpr", f);
            for n in i.name_list.iter_mut() {
                f("invoke.namelist", n);
            }
            common(&mut i.content, "invoke", f);
            params(&mut i.params, "invoke", f);
            ni.push(i);
        }
        s.invoke = ni;
        if let Some(dd) = s.donedata.as_mut() {
            common(&mut dd.content, "donedata", f);
            params(&mut dd.params, "donedata", f);
        }
    }
    for t in fsm.transitions.values_mut() {
        for e in t.events.iter_mut() {
            f("transition.event", e);
        }
        data(&mut t.cond, "transition.cond", f);
    }
    for v in fsm.executableContent.values_mut() {
        for ec in v.iter_mut() {
            let any = ec.as_mut().as_any_mut();
            if let Some(x) = any.downcast_mut::<If>() {
                data(&mut x.condition, "if.cond", f);
            } else if let Some(x) = any.downcast_mut::<ForEach>() {
                data(&mut x.array, "foreach.array", f);
                f("foreach.item", &mut x.item);
                f("foreach.index", &mut x.index);
            } else if let Some(x) = any.downcast_mut::<Assign>() {
                data(&mut x.location, "assign.location", f);
                data(&mut x.expr, "assign.expr", f);
            } else if let Some(x) = any.downcast_mut::<Raise>() {
                f("raise.event", &mut x.event);
            } else if let Some(x) = any.downcast_mut::<Log>() {
                f("log.label", &mut x.label);
                data(&mut x.expression, "log.expr", f);
            } else if let Some(x) = any.downcast_mut::<Expression>() {
                data(&mut x.content, "script", f);
            } else if let Some(x) = any.downcast_mut::<Cancel>() {
                f("cancel.sendid", &mut x.send_id);
                data(&mut x.send_id_expr, "cancel.sendidexpr", f);
            } else if let Some(x) = any.downcast_mut::<SendParameters>() {
                f("send.id", &mut x.name);
                f("send.idlocation", &mut x.name_location);
                data(&mut x.event, "send.event", f);
                data(&mut x.event_expr, "send.eventexpr", f);
                data(&mut x.target, "send.target", f);
                data(&mut x.target_expr, "send.targetexpr", f);
                data(&mut x.type_value, "send.type", f);
                data(&mut x.type_expr, "send.typeexpr", f);
                data(&mut x.delay_expr, "send.delayexpr", f);
                for n in x.name_list.iter_mut() {
                    f("send.namelist", n);
                }
                common(&mut x.content, "send", f);
                params(&mut x.params, "send", f);
            }
        }
    }
}

/// A sink that accepts at most `chunk` bytes per write call and fails (optionally) at call `fail_at`.
pub struct FaultySink {
    pub data: Vec<u8>,
    pub chunk: usize,
    pub calls: usize,
    pub fail_at: Option<usize>,
    pub fail_flush: bool,
    pub failed: bool,
}

impl FaultySink {
    pub fn new(chunk: usize, fail_at: Option<usize>, fail_flush: bool) -> FaultySink {
        FaultySink { data: Vec::new(), chunk, calls: 0, fail_at, fail_flush, failed: false }
    }
}

impl Write for FaultySink {
    fn write(&mut self, buf: &[u8]) -> std::io::Result<usize> {
        let k = self.calls;
        self.calls += 1;
        if self.fail_at == Some(k) {
            self.failed = true;
            return Err(std::io::Error::new(std::io::ErrorKind::Other, "injected write failure"));
        }
        let n = buf.len().min(self.chunk.max(1));
        self.data.extend_from_slice(&buf[..n]);
        Ok(n)
    }
    fn flush(&mut self) -> std::io::Result<()> {
        if self.fail_flush {
            self.failed = true;
            return Err(std::io::Error::new(std::io::ErrorKind::Other, "injected flush failure"));
        }
        Ok(())
    }
}

/// Writes through a faulty sink; returns (bytes accepted, write calls, has_error, panic)
pub fn write_fsm_faulty(fsm: &Fsm, sink: FaultySink) -> (Vec<u8>, usize, bool, Option<String>) {
    let r = std::panic::catch_unwind(std::panic::AssertUnwindSafe(|| {
        let mut w: FsmWriter<FaultySink> = FsmWriter::new(Box::new(DefaultProtocolWriter::new(sink)));
        w.write(fsm);
        w.close();
        let err = w.writer.has_error();
        let s = w.get_writer();
        (s.data.clone(), s.calls, err)
    }));
    match r {
        Ok((d, c, e)) => (d, c, e, None),
        Err(_) => (vec![], 0, false, Some(last_panic())),
    }
}

#[allow(dead_code)]
fn _unused(_x: &dyn ToAny) {}
