//! C19 — event descriptors match by whole dot-separated token prefixes, for all names.

use crate::doc::*;
use crate::engine::{CaseResult, Check, Phase, Tier};
use crate::refmodel::{name_match, Mode};
use crate::render::render_doc;
use crate::sess::*;
use crate::tape::Tape;

pub struct C19;

const TOKENS: [&str; 9] = ["a", "b", "ab", "A", "\u{e9}", "\u{fc}", "\u{65e5}\u{672c}", "x1", ""];
/// alphabet of the exhaustive enumeration (shared prefixes, case variant, multi-byte, empty token)
const ENUM_TOKENS: [&str; 6] = ["a", "ab", "A", "\u{e9}", "\u{e9}x", ""];

fn probe_doc(lists: &[Vec<String>]) -> Doc {
    let mut p = State::new("p", Kind::Parallel);
    for (i, l) in lists.iter().enumerate() {
        let mut r = State::new(&format!("r{}", i), Kind::State);
        r.transitions.push(Trans { events: l.clone(), cond: None, targets: vec![], internal: false, content: vec![C::Mark { tag: format!("hit{}", i), args: vec![X::EventName] }] });
        r.transitions.push(Trans { events: vec!["*".into()], cond: None, targets: vec![], internal: false, content: vec![C::Mark { tag: format!("miss{}", i), args: vec![X::EventName] }] });
        p.children.push(r);
    }
    Doc { dm: DM::Rfsm, late_binding: false, name: "probe".into(), initial: None, data: vec![], states: vec![p] }
}

fn gen_name(t: &mut Tape) -> String {
    let n = 1 + t.below(4);
    let mut v: Vec<&str> = Vec::new();
    for _ in 0..n {
        v.push(TOKENS[t.below(TOKENS.len())]);
    }
    v.join(".")
}

fn gen_descriptor(t: &mut Tape, names: &[String]) -> String {
    if t.chance(6) {
        return "*".to_string();
    }
    // often a (token) prefix or a character prefix of one of the names that will be sent
    let mut d = if !names.is_empty() && t.chance(60) {
        let n = &names[t.below(names.len())];
        let toks: Vec<&str> = n.split('.').collect();
        let k = 1 + t.below(toks.len());
        let mut s = toks[..k].join(".");
        if t.chance(25) {
            // cut inside the last token: a proper character prefix that is not a token prefix
            let chars: Vec<char> = s.chars().collect();
            if chars.len() > 1 {
                s = chars[..chars.len() - 1].iter().collect();
            }
        } else if t.chance(15) {
            s.push('x');
        }
        s
    } else {
        let n = 1 + t.below(3);
        (0..n).map(|_| TOKENS[t.below(TOKENS.len())]).collect::<Vec<_>>().join(".")
    };
    if d.is_empty() || d.split_whitespace().next().is_none() {
        d = "a".into();
    }
    match t.below(10) {
        0 | 1 => d.push('.'),
        2 | 3 => d.push_str(".*"),
        // redundant suffixes may be repeated and mixed
        4 => d.push_str(".."),
        5 => d.push_str(".*."),
        6 => d.push_str("..*"),
        _ => {}
    }
    d
}

fn nontrivial_pair(desc: &[String], name: &str) -> bool {
    // name and descriptor share a proper character prefix that is not a token prefix, or contain a multi-byte token
    let multibyte = !name.is_ascii() || desc.iter().any(|d| !d.is_ascii());
    let char_prefix = desc.iter().any(|d| {
        let n = crate::refmodel::normalise_descriptor(d);
        name.starts_with(&n) && !name_match(&[d.clone()], name)
    });
    multibyte || char_prefix
}

impl Check for C19 {
    fn id(&self) -> &'static str {
        "C19"
    }
    fn rule(&self) -> String {
        "probe document: k parallel regions, region i has [descriptor-list_i -> mark hit_i] followed by [* -> mark miss_i] (both targetless), so every host event tests k descriptor lists; names = 1-4 tokens from {a,b,ab,A,e-acute,u-umlaut,CJK,x1,empty} joined by '.', \
         descriptors = token/character prefixes of the names or random token sequences with optional '.' / '.*' suffix (also repeated and mixed: '..', '.*.', '..*'), or '*'. Oracle: trace equality with the reference interpreter whose matching is the W3C token-prefix rule; \
         thorough adds the exhaustive product of all descriptors of <= 2 tokens (3 suffix spellings) x all names of <= 3 tokens over a 6-token alphabet. \
         Non-trivial = a name/descriptor pair shares a character prefix that is not a token prefix, or contains a multi-byte token; distinct = hash of document + events."
            .into()
    }
    fn assumptions(&self) -> Vec<String> {
        vec!["event names are delivered by the host through the session's sender, descriptors through the XML reader".into()]
    }
    fn phases(&self, tier: Tier) -> Vec<Phase> {
        // enumeration: 42 descriptors x 3 spellings, each tested against all 258 names in one session
        let nd = (ENUM_TOKENS.len() + ENUM_TOKENS.len() * ENUM_TOKENS.len()) as u64 * 3;
        match tier {
            Tier::Quick => vec![Phase::random("random-lists", 20_000, 512).batch(50).watchdog(30_000), Phase::indexed("all-short-descriptors-x-all-short-names", nd, true).batch(6).watchdog(60_000)],
            Tier::Thorough => vec![Phase::random("random-lists", 400_000, 512).batch(100).watchdog(30_000), Phase::indexed("all-short-descriptors-x-all-short-names", nd, true).batch(6).watchdog(60_000)],
        }
    }
    fn describe(&self, phase: usize, tape: &[u8]) -> String {
        let c = self.decode(phase, tape);
        format!("events {:?}\n{}", c.events, c.xml)
    }
    fn run(&self, phase: usize, tape: &[u8], want_sample: bool) -> CaseResult {
        let c = self.decode(phase, tape);
        let lists: Vec<Vec<String>> = c.doc.states[0].children.iter().map(|r| r.transitions[0].events.clone()).collect();
        let pairs = (lists.len() * c.events.len()) as u64;
        let nontrivial = c.events.iter().any(|n| lists.iter().any(|l| nontrivial_pair(l, n)));
        let mut r = compare_case(&c, want_sample, &|_, _| nontrivial, &|_, _, _| Ok(()));
        r.evaluations = pairs.max(1);
        r
    }
}

impl C19 {
    fn decode(&self, phase: usize, tape: &[u8]) -> Case {
        if phase == 0 {
            let mut t = Tape::new(tape);
            let ne = 1 + t.below(6);
            let events: Vec<String> = (0..ne).map(|_| gen_name(&mut t)).collect();
            let k = 1 + t.below(5);
            let mut lists = Vec::new();
            for _ in 0..k {
                let nd = 1 + t.below(3);
                let mut l: Vec<String> = Vec::new();
                for _ in 0..nd {
                    let d = gen_descriptor(&mut t, &events);
                    if !l.contains(&d) {
                        l.push(d);
                    }
                }
                lists.push(l);
            }
            let doc = probe_doc(&lists);
            let xml = render_doc(&doc);
            Case { doc, events, mode: if t.bool() { Mode::PreQueued } else { Mode::FedAtIdle }, xml }
        } else {
            let mut b = [0u8; 8];
            for (i, x) in tape.iter().take(8).enumerate() {
                b[i] = *x;
            }
            let idx = u64::from_le_bytes(b) as usize;
            let n = ENUM_TOKENS.len();
            let spelling = idx % 3;
            let di = idx / 3;
            let mut d = if di < n { ENUM_TOKENS[di].to_string() } else { format!("{}.{}", ENUM_TOKENS[(di - n) / n], ENUM_TOKENS[(di - n) % n]) };
            // a descriptor must be a non-empty XML token; the empty single token cannot be written
            if d.is_empty() {
                d = "a".into();
            }
            match spelling {
                1 => d.push('.'),
                2 => d.push_str(".*"),
                _ => {}
            }
            let mut events = Vec::new();
            for a in 0..n {
                events.push(ENUM_TOKENS[a].to_string());
                for b2 in 0..n {
                    events.push(format!("{}.{}", ENUM_TOKENS[a], ENUM_TOKENS[b2]));
                    for c in 0..n {
                        events.push(format!("{}.{}.{}", ENUM_TOKENS[a], ENUM_TOKENS[b2], ENUM_TOKENS[c]));
                    }
                }
            }
            let doc = probe_doc(&[vec![d]]);
            let xml = render_doc(&doc);
            Case { doc, events, mode: Mode::PreQueued, xml }
        }
    }
}
