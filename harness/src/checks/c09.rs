//! C09 — In(), system variables and data binding behave as SCXML specifies.

use crate::doc::*;
use crate::engine::{hash_str, CaseResult, Check, Phase, Tier};
use crate::refmodel::{Mode, Rec};
use crate::render::render_doc;
use crate::runner::{parse, run_session_events};
use crate::sess::*;
use crate::tape::Tape;
use rufsm::datamodel::Data;
use rufsm::fsm::{Event, EventType, ParamPair};
use serde_json::json;
use std::time::Duration;

pub struct C09;

fn blank(s: &str) -> bool {
    matches!(s, "" | "null" | "undefined" | "none" | "None")
}

fn same(a: &str, b: &str) -> bool {
    a == b || (blank(a) && blank(b))
}

fn opt(o: &Option<String>) -> String {
    o.clone().unwrap_or_default()
}

// ------------------------------------------------------------------------------------------
// phase 0: _event fields

struct EvCase {
    doc: Doc,
    xml: String,
    events: Vec<Event>,
    mode: Mode,
}

const EV_NAMES: [&str; 4] = ["e1", "e2.x", "e3", "\u{e9}v"];

fn ev_doc(dm: DM, with_params: &[bool]) -> Doc {
    // one region per event name; every handler reads all fields of _event
    let mut p = State::new("p", Kind::Parallel);
    let fields = |tag: &str| C::Mark {
        tag: tag.to_string(),
        args: vec![
            X::Raw("_event.name".into()),
            X::Raw("_event.type".into()),
            X::Raw("_event.sendid".into()),
            X::Raw("_event.origin".into()),
            X::Raw("_event.origintype".into()),
            X::Raw("_event.invokeid".into()),
        ],
    };
    let mut r0 = State::new("r0", Kind::State);
    for (i, n) in EV_NAMES.iter().enumerate() {
        let mut content = vec![fields("ev")];
        if with_params[i] {
            content.push(C::Mark { tag: "evp".into(), args: vec![X::Raw("_event.data.p1".into()), X::Raw("_event.data.p2".into())] });
        } else {
            content.push(C::Mark { tag: "evc".into(), args: vec![X::Raw("_event.data".into())] });
        }
        if i == 0 {
            // follow-up internal events: raised, sent to #_internal, and an error event
            content.push(C::Raise("int.raised".into()));
            content.push(C::SendInternal("int.sent".into()));
            content.push(C::Assign { var: "undeclared_location".into(), expr: X::Int(1) });
        }
        r0.transitions.push(Trans { events: vec![n.to_string()], cond: None, targets: vec![], internal: false, content });
    }
    for n in ["int.raised", "int.sent", "error.execution"] {
        r0.transitions.push(Trans { events: vec![n.to_string()], cond: None, targets: vec![], internal: false, content: vec![fields("ev")] });
    }
    p.children.push(r0);
    // second region: reads the name again after region 0 ran its content in the same microstep
    let mut r1 = State::new("r1", Kind::State);
    r1.transitions.push(Trans { events: vec!["*".into()], cond: None, targets: vec![], internal: false, content: vec![C::Mark { tag: "ev2".into(), args: vec![X::Raw("_event.name".into())] }] });
    p.children.push(r1);
    let mut d = Doc::new(dm, vec![p]);
    d.name = "sysvars".into();
    d
}

fn gen_ev_case(tape: &[u8]) -> EvCase {
    let mut t = Tape::new(tape);
    let dm = if t.chance(30) { DM::Ecma } else { DM::Rfsm };
    let with_params: Vec<bool> = (0..EV_NAMES.len()).map(|_| t.bool()).collect();
    let doc = ev_doc(dm, &with_params);
    let n = 1 + t.below(6);
    let mut events = Vec::new();
    for _ in 0..n {
        let i = t.below(EV_NAMES.len());
        let mut e = Event::new_simple(EV_NAMES[i]);
        if t.bool() {
            e.sendid = Some((*t.pick(&["sid1", "send.7", "\u{e9}"])).to_string());
        }
        if t.bool() {
            e.origin = Some((*t.pick(&["#_scxml_99", "http://example.org/a?b=1", "somewhere"])).to_string());
        }
        if t.bool() {
            e.origin_type = Some((*t.pick(&["http://www.w3.org/TR/scxml/#SCXMLEventProcessor", "custom"])).to_string());
        }
        if with_params[i] {
            let v1 = if t.bool() { Data::Integer(t.range(-5, 500)) } else { Data::String((*t.pick(&["x", "two words", "\u{fc}"])).to_string()) };
            let v2 = if t.bool() { Data::Boolean(t.bool()) } else { Data::Integer(t.range(0, 9)) };
            e.param_values = Some(vec![ParamPair::new("p1", &v1), ParamPair::new("p2", &v2)]);
        } else if t.bool() {
            e.content = Some(if t.bool() { Data::Integer(t.range(0, 99)) } else { Data::String((*t.pick(&["payload", "p q"])).to_string()) });
        }
        events.push(e);
    }
    let xml = render_doc(&doc);
    EvCase { doc, xml, events, mode: if t.bool() { Mode::PreQueued } else { Mode::FedAtIdle } }
}

fn check_event_fields(c: &EvCase, want_sample: bool) -> CaseResult {
    let hash = hash_str(&format!("{}|{:?}", c.xml, c.events.iter().map(|e| format!("{:?}", e)).collect::<Vec<_>>()));
    let fsm = match parse(&c.xml) {
        Ok(f) => f,
        Err(e) => return CaseResult::fail(hash, "reader-rejects-conformant-document", e),
    };
    let real = run_session_events(fsm, &c.events, c.mode, Duration::from_secs(8));
    if real.timed_out {
        return CaseResult::error("session did not end".into());
    }
    if let Some(p) = &real.panicked {
        return CaseResult::fail(hash, "session-thread-panicked", format!("{}\n{}", p, c.xml));
    }
    // host events as seen == as sent
    let seen_ext: Vec<&Event> = real.events_seen.iter().filter(|e| EV_NAMES.contains(&e.name.as_str())).collect();
    if seen_ext.len() != c.events.len() {
        return CaseResult::fail(hash, "event-lost", format!("{} host events sent, {} dequeued", c.events.len(), seen_ext.len()));
    }
    for (s, g) in c.events.iter().zip(seen_ext.iter()) {
        if s.name != g.name || s.sendid != g.sendid || s.origin != g.origin || s.origin_type != g.origin_type || format!("{:?}", s.param_values) != format!("{:?}", g.param_values) || format!("{:?}", s.content) != format!("{:?}", g.content) {
            return CaseResult::fail(hash, "event-changed-in-queue", format!("sent {:?}, dequeued {:?}", s, g));
        }
    }
    // every mark reads the fields of the event that is being processed
    let mut k = 0usize; // index into events_seen
    let mut cur: Option<&Event> = None;
    let mut marks = 0;
    for r in &real.trace {
        match r {
            Rec::IntDeq(_) | Rec::ExtDeq(_) => {
                cur = real.events_seen.get(k);
                k += 1;
            }
            Rec::Mark(tag, vals) => {
                let Some(e) = cur else { return CaseResult::fail(hash, "mark-without-event", format!("{:?}", r)) };
                marks += 1;
                match tag.as_str() {
                    "ev" => {
                        let expect = [e.name.clone(), e.etype.name().to_string(), opt(&e.sendid), opt(&e.origin), opt(&e.origin_type), opt(&e.invoke_id)];
                        for (i, f) in ["name", "type", "sendid", "origin", "origintype", "invokeid"].iter().enumerate() {
                            let got = vals.get(i).cloned().unwrap_or_default();
                            if !same(&got, &expect[i]) {
                                return CaseResult::fail(hash, &format!("event-field:{}", f), format!("_event.{} read as {:?} while event {:?} is processed (expected {:?}); data model {}", f, got, e, expect[i], c.doc.dm.name()));
                            }
                        }
                    }
                    "ev2" => {
                        if vals.first().map(|v| v.as_str()) != Some(e.name.as_str()) {
                            return CaseResult::fail(hash, "event-field:name", format!("_event.name read as {:?} in the second region while {:?} is processed", vals, e.name));
                        }
                    }
                    "evp" => {
                        if let Some(p) = &e.param_values {
                            for (i, pp) in p.iter().enumerate() {
                                let got = vals.get(i).cloned().unwrap_or_default();
                                if !same(&got, &pp.value.to_string()) {
                                    return CaseResult::fail(hash, "event-data-param", format!("_event.data.{} read as {:?}, sent {:?}; data model {}", pp.name, got, pp.value, c.doc.dm.name()));
                                }
                            }
                        }
                    }
                    "evc" => {
                        let got = vals.first().cloned().unwrap_or_default();
                        let expect = e.content.as_ref().map(|d| d.to_string()).unwrap_or_default();
                        if e.param_values.is_none() && !same(&got, &expect) {
                            return CaseResult::fail(hash, "event-data-content", format!("_event.data read as {:?}, sent content {:?}; data model {}", got, e.content, c.doc.dm.name()));
                        }
                    }
                    _ => {}
                }
            }
            _ => {}
        }
    }
    // the handler chain of e1 produces an internal raised, an internal sent and an error event
    let mut r = CaseResult::pass(hash, marks >= 2);
    r.classes.push(format!("dm_{}", c.doc.dm.name()));
    r.classes.push("event_fields".into());
    r.evaluations = marks.max(1) as u64;
    if want_sample {
        r.sample = Some(json!({"scxml": c.xml, "events": c.events.iter().map(|e| format!("{:?}", e)).collect::<Vec<_>>(), "trace_head": real.trace.iter().take(30).map(|x| format!("{:?}", x)).collect::<Vec<_>>()}));
    }
    let _ = EventType::external;
    r
}

// ------------------------------------------------------------------------------------------
// phase 1: system variables cannot be modified

/// (label, content that tries to modify a system variable, data models it applies to)
fn attempts() -> Vec<(&'static str, C, bool, bool)> {
    let asg = |l: &str, e: X| C::Assign { var: l.to_string(), expr: e };
    vec![
        ("assign _sessionid", asg("_sessionid", X::Int(1)), true, true),
        ("assign _name", asg("_name", X::Str("x".into())), true, true),
        ("assign _ioprocessors", asg("_ioprocessors", X::Int(1)), true, true),
        ("assign _event", asg("_event", X::Int(1)), true, true),
        ("assign _event.name", asg("_event.name", X::Str("x".into())), true, true),
        ("assign _event.data", asg("_event.data", X::Int(1)), true, true),
        ("script _sessionid =", C::Script(X::Raw("_sessionid = 5".into())), true, true),
        ("script _name =", C::Script(X::Raw("_name = 'y'".into())), true, true),
        ("script _event.name =", C::Script(X::Raw("_event.name = 'y'".into())), true, true),
        ("script _sessionid ?=", C::Script(X::Raw("_sessionid ?= 5".into())), true, false),
        ("script _name ?=", C::Script(X::Raw("_name ?= 'y'".into())), true, false),
        ("script _event.name ?=", C::Script(X::Raw("_event.name ?= 'z'".into())), true, false),
        ("script _event.extra ?=", C::Script(X::Raw("_event.extra ?= 1".into())), true, false),
        ("script _ioprocessors ?=", C::Script(X::Raw("_ioprocessors ?= 1".into())), true, false),
        ("assign _event['name']", asg("_event['name']", X::Str("x".into())), true, true),
        ("assign _event['sendid']", asg("_event['sendid']", X::Str("x".into())), true, true),
        ("assign _event['data']", asg("_event['data']", X::Int(1)), true, true),
        ("script _event['name'] =", C::Script(X::Raw("_event['name'] = 'y'".into())), true, true),
        ("script _event['name'] ?=", C::Script(X::Raw("_event['name'] ?= 'y'".into())), true, false),
        ("script _event['extra'] ?=", C::Script(X::Raw("_event['extra'] ?= 1".into())), true, false),
        ("assign _ioprocessors member", asg("_ioprocessors['scxml']", X::Int(1)), true, true),
        ("foreach item=_name", C::ForEach { array: X::IntArr(vec![1, 2]), item: "_name".into(), index: None, body: vec![] }, true, true),
        ("foreach item=_sessionid", C::ForEach { array: X::IntArr(vec![1, 2]), item: "_sessionid".into(), index: None, body: vec![] }, true, true),
        ("foreach index=_sessionid", C::ForEach { array: X::IntArr(vec![1, 2]), item: "it".into(), index: Some("_sessionid".into()), body: vec![] }, true, true),
    ]
}

fn check_readonly(tape: &[u8], want_sample: bool) -> CaseResult {
    let mut t = Tape::new(tape);
    let dm = if t.chance(35) { DM::Ecma } else { DM::Rfsm };
    let all = attempts();
    let usable: Vec<&(&str, C, bool, bool)> = all.iter().filter(|a| if dm == DM::Rfsm { a.2 } else { a.3 }).collect();
    let n = 1 + t.below(4);
    let picks: Vec<usize> = (0..n).map(|_| t.below(usable.len())).collect();
    // document: region 0 handles a<k> with the attempt, region 1 reads _event.name in the same microstep,
    // event "r" reads the system variables
    let mut p = State::new("p", Kind::Parallel);
    let mut r0 = State::new("r0", Kind::State);
    for (k, pi) in picks.iter().enumerate() {
        r0.transitions.push(Trans { events: vec![format!("a{}", k)], cond: None, targets: vec![], internal: false, content: vec![C::Mark { tag: format!("before{}", k), args: vec![] }, usable[*pi].1.clone(), C::Mark { tag: format!("after{}", k), args: vec![] }] });
    }
    r0.transitions.push(Trans { events: vec!["r".into()], cond: None, targets: vec![], internal: false, content: vec![C::Mark { tag: "read".into(), args: vec![X::Raw("_sessionid".into()), X::Raw("_name".into())] }] });
    p.children.push(r0);
    let mut r1 = State::new("r1", Kind::State);
    r1.transitions.push(Trans { events: vec!["a".into()], cond: None, targets: vec![], internal: false, content: vec![C::Mark { tag: "name".into(), args: vec![X::Raw("_event.name".into())] }] });
    p.children.push(r1);
    let mut doc = Doc::new(dm, vec![p]);
    doc.name = "thename".into();
    doc.data.push(DataDecl { id: "it".into(), expr: Some(X::Int(0)) });
    let xml = render_doc(&doc).replace("event=\"a\"", "event=\"a0 a1 a2 a3 a4\"");
    let mut events: Vec<Event> = vec![Event::new_simple("r")];
    for k in 0..n {
        events.push(Event::new_simple(&format!("a{}", k)));
        events.push(Event::new_simple("r"));
    }
    let hash = hash_str(&format!("{}|{:?}", xml, picks));
    let fsm = match parse(&xml) {
        Ok(f) => f,
        Err(e) => return CaseResult::fail(hash, "reader-rejects-conformant-document", e),
    };
    let real = run_session_events(fsm, &events, Mode::PreQueued, Duration::from_secs(8));
    if real.timed_out {
        return CaseResult::error("session did not end".into());
    }
    if let Some(pn) = &real.panicked {
        return CaseResult::fail(hash, "session-thread-panicked", format!("{}\n{}", pn, xml));
    }
    // walk the macrosteps
    let sid = real.session_id.to_string();
    let mut k_attempt: Option<usize> = None;
    let mut saw_error = false;
    let mut after_ran = false;
    let check_end = |k: Option<usize>, saw_error: bool, after_ran: bool| -> Result<(), (String, String)> {
        if let Some(k) = k {
            let label = usable[picks[k]].0;
            if !saw_error {
                return Err((format!("no-error-event:{}", label), format!("'{}' ({}) raised no error.execution in its macrostep\n{}", label, dm.name(), xml)));
            }
            if after_ran {
                return Err((format!("block-continued:{}", label), format!("'{}' ({}): the content after the rejected modification was executed\n{}", label, dm.name(), xml)));
            }
        }
        Ok(())
    };
    for r in &real.trace {
        match r {
            Rec::ExtDeq(n) => {
                if let Err((s, d)) = check_end(k_attempt, saw_error, after_ran) {
                    return CaseResult::fail(hash, &s, d);
                }
                saw_error = false;
                after_ran = false;
                k_attempt = n.strip_prefix('a').and_then(|x| x.parse::<usize>().ok());
            }
            Rec::IntDeq(n) if n == "error.execution" => saw_error = true,
            Rec::Mark(tag, vals) => {
                if tag == "read" {
                    let label = k_attempt.map(|k| usable[picks[k]].0).unwrap_or("-");
                    if vals.first().map(|v| v.as_str()) != Some(sid.as_str()) {
                        return CaseResult::fail(hash, "sessionid-changed", format!("_sessionid reads {:?}, the session id is {} (data model {}, last attempt '{}')\n{}", vals.first(), sid, dm.name(), label, xml));
                    }
                    if vals.get(1).map(|v| v.as_str()) != Some("thename") {
                        return CaseResult::fail(hash, "name-changed", format!("_name reads {:?}, the document name is 'thename' (data model {})\n{}", vals.get(1), dm.name(), xml));
                    }
                } else if tag == "name" {
                    let expect = k_attempt.map(|k| format!("a{}", k)).unwrap_or_default();
                    if vals.first().map(|v| v.as_str()) != Some(expect.as_str()) {
                        let label = k_attempt.map(|k| usable[picks[k]].0).unwrap_or("-");
                        return CaseResult::fail(hash, &format!("event-name-changed:{}", label), format!("_event.name reads {:?} after '{}' while {} is processed (data model {})\n{}", vals.first(), label, expect, dm.name(), xml));
                    }
                } else if tag.starts_with("after") {
                    after_ran = true;
                }
            }
            _ => {}
        }
    }
    let mut r = CaseResult::pass(hash, true);
    r.classes.push(format!("dm_{}", dm.name()));
    for pi in &picks {
        r.classes.push(format!("attempt_{}", usable[*pi].0.replace(' ', "_")));
    }
    if want_sample {
        r.sample = Some(json!({"scxml": xml, "attempts": picks.iter().map(|p| usable[*p].0).collect::<Vec<_>>(), "trace_head": real.trace.iter().take(40).map(|x| format!("{:?}", x)).collect::<Vec<_>>()}));
    }
    r
}

// ------------------------------------------------------------------------------------------
// phase 2: In() at partial configurations and data binding (early / late), against the reference

fn binding_case(tape: &[u8]) -> Case {
    let mut t = Tape::new(tape);
    let mut p = Profile::structure();
    p.dm_weights = [0, 80, 20];
    p.max_states = 10;
    let mut doc = gen_doc(&mut t, &p);
    doc.late_binding = t.bool();
    let flat = flatten(&doc);
    let ids: Vec<String> = flat.iter().filter(|f| matches!(f.kind, Kind::State | Kind::Parallel)).map(|f| f.id.clone()).collect();
    let all_states: Vec<String> = flat.iter().filter(|f| !matches!(f.kind, Kind::History { .. })).map(|f| f.id.clone()).collect();
    fn walk(s: &mut State, t: &mut Tape, ids: &[String], all: &[String]) {
        if matches!(s.kind, Kind::State | Kind::Parallel) {
            let k: i64 = s.id[1..].parse().unwrap_or(0);
            s.data.push(DataDecl { id: format!("d_{}", s.id), expr: Some(X::Int(100 + k)) });
            // first onentry block: reads the own variable, another one, and In() of two states
            let other = &ids[t.below(ids.len())];
            let args = vec![X::Var(format!("d_{}", s.id)), X::Var(format!("d_{}", other)), X::In(all[t.below(all.len())].clone()), X::In(all[t.below(all.len())].clone())];
            s.onentry.insert(0, vec![C::Mark { tag: format!("bind:{}", s.id), args }]);
            if t.chance(40) {
                let other = &ids[t.below(ids.len())];
                s.onexit.push(vec![
                    C::Mark { tag: format!("x:{}", s.id), args: vec![X::In(all[t.below(all.len())].clone()), X::In(s.id.clone())] },
                    C::Assign { var: format!("d_{}", other), expr: X::Int(t.range(1, 50)) },
                ]);
            }
        }
        if !s.is_history() {
            for tr in s.transitions.iter_mut() {
                if t.chance(40) {
                    let other = &ids[t.below(ids.len())];
                    tr.content.push(C::Assign { var: format!("d_{}", other), expr: X::Int(t.range(1, 50)) });
                    tr.content.push(C::Mark { tag: format!("tv:{}", other), args: vec![X::Var(format!("d_{}", other)), X::In(all[t.below(all.len())].clone())] });
                }
            }
        }
        for c in s.children.iter_mut() {
            walk(c, t, ids, all);
        }
    }
    if !ids.is_empty() {
        for s in doc.states.iter_mut() {
            walk(s, &mut t, &ids, &all_states);
        }
    }
    let events = gen_events(&mut t, &p, &doc);
    let mode = if t.bool() { Mode::FedAtIdle } else { Mode::PreQueued };
    let xml = render_doc(&doc);
    Case { doc, events, mode, xml }
}

impl Check for C09 {
    fn id(&self) -> &'static str {
        "C09"
    }
    fn rule(&self) -> String {
        "three generators. event-fields: host events with generated name/sendid/origin/origintype/params|content plus raised, #_internal-sent and error events; every handler marks all fields of _event (and a second parallel region re-reads the name in the same microstep): read == event as dequeued == event as sent by the host. \
         read-only: 1-4 attempts (24 kinds, member and index forms: <assign> to _sessionid/_name/_ioprocessors/_event/_event.name/_event.data, <script> with '=' and (rfsm) '?=', <foreach item|index=system variable>) each in its own macrostep: error.execution dequeued, rest of the block not executed, values read afterwards unchanged. \
         binding: generated statecharts whose states declare data, marks read own/foreign variables and In() of two states in onentry/onexit/transition bodies (partially updated configurations), transitions assign foreign variables before/after first entry; early or late binding; oracle = reference interpreter. \
         rfsm-expression and strict ECMAScript (null data model: In() guards are covered by C02). Non-trivial = >= 2 field-reading marks / a modification attempt / late binding or an In() mark inside a microstep that changes >= 2 states; distinct = hash of document + events."
            .into()
    }
    fn assumptions(&self) -> Vec<String> {
        vec![
            "absent fields are compared blank-insensitively ('', null, undefined)".into(),
            "_event.type of done.state.* events and the URI spelling of origintype are not asserted".into(),
        ]
    }
    fn phases(&self, tier: Tier) -> Vec<Phase> {
        match tier {
            Tier::Quick => vec![
                Phase::random("event-fields", 8_000, 256).batch(100).watchdog(30_000),
                Phase::random("read-only", 8_000, 64).batch(100).watchdog(30_000),
                Phase::random("binding-and-in", 12_000, 2048).batch(100).watchdog(30_000),
            ],
            Tier::Thorough => vec![
                Phase::random("event-fields", 100_000, 256).batch(200).watchdog(30_000),
                Phase::random("read-only", 100_000, 64).batch(200).watchdog(30_000),
                Phase::random("binding-and-in", 200_000, 2048).batch(200).watchdog(30_000),
            ],
        }
    }
    fn describe(&self, phase: usize, tape: &[u8]) -> String {
        match phase {
            0 => {
                let c = gen_ev_case(tape);
                format!("{:?}\n{}", c.events, c.xml)
            }
            2 => {
                let c = binding_case(tape);
                format!("events {:?} mode {:?}\n{}", c.events, c.mode, c.xml)
            }
            _ => String::new(),
        }
    }
    fn run(&self, phase: usize, tape: &[u8], want_sample: bool) -> CaseResult {
        match phase {
            0 => check_event_fields(&gen_ev_case(tape), want_sample),
            1 => check_readonly(tape, want_sample),
            _ => {
                let c = binding_case(tape);
                let late = c.doc.late_binding;
                let mut r = compare_case(&c, want_sample, &|st, _| late || st.multi_state_change, &|_, _, _| Ok(()));
                r.classes.push(if late { "late_binding".into() } else { "early_binding".into() });
                r
            }
        }
    }
}
