//! C06 — history states restore exactly what was active when the parent was left.

use crate::doc::*;
use crate::engine::{CaseResult, Check, Phase, Tier};
use crate::refmodel::Rec;
use crate::sess::*;
use std::collections::{BTreeMap, BTreeSet};

pub struct C06;

/// Reference-free history oracle over the observed stream (DESIGN §6/C06 (a)).
fn history_oracle(c: &Case, trace: &[Rec]) -> Result<usize, (String, String)> {
    let flat = flatten(&c.doc);
    let idx = |id: &str| flat.iter().position(|f| f.id == id);
    let is_desc = |mut s: usize, anc: usize| {
        while let Some(p) = flat[s].parent {
            if p == anc {
                return true;
            }
            s = p;
        }
        false
    };
    let atomic = |s: usize| flat[s].children.iter().all(|c| matches!(flat[*c].kind, Kind::History { .. })) && !matches!(flat[s].kind, Kind::History { .. });
    // transitions by label
    let mut targets_of: BTreeMap<String, Vec<String>> = BTreeMap::new();
    for_each_state(&c.doc, &mut |s| {
        for (k, t) in s.transitions.iter().enumerate() {
            targets_of.insert(format!("{}#{}", s.id, k), t.targets.clone());
        }
    });
    let mut recorded: BTreeMap<usize, BTreeSet<String>> = BTreeMap::new(); // history idx -> recorded state ids
    let mut last_cfg: Vec<String> = Vec::new();
    let mut checked = 0usize;
    let mut i = 0;
    while i < trace.len() {
        match &trace[i] {
            Rec::Cfg(cfg) => last_cfg = cfg.clone(),
            Rec::Sel(labels) => {
                // the records of this microstep: up to the next Cfg
                let mut j = i + 1;
                while j < trace.len() && !matches!(trace[j], Rec::Cfg(_)) {
                    j += 1;
                }
                let step = &trace[i + 1..j.min(trace.len())];
                let after: Vec<String> = match trace.get(j) {
                    Some(Rec::Cfg(c)) => c.clone(),
                    _ => break,
                };
                let before = last_cfg.clone();
                // --- uses of a history state by a single selected transition
                if labels.len() == 1 {
                    if let Some(tg) = targets_of.get(&labels[0]) {
                        if tg.len() == 1 {
                            if let Some(h) = idx(&tg[0]) {
                                if let Kind::History { deep } = flat[h].kind {
                                    let p = flat[h].parent.unwrap();
                                    let tag = format!("hist:{}", flat[h].id);
                                    let default_marks = step.iter().filter(|r| matches!(r, Rec::Mark(t, _) if *t == tag)).count();
                                    // a previous exit in this very microstep records first (exit precedes entry)
                                    let mut rec_now = recorded.get(&h).cloned();
                                    if step.iter().any(|r| matches!(r, Rec::Exit(s) if *s == flat[p].id)) {
                                        let r: BTreeSet<String> = before
                                            .iter()
                                            .filter(|s| {
                                                let si = idx(s).unwrap();
                                                if deep {
                                                    atomic(si) && is_desc(si, p)
                                                } else {
                                                    flat[si].parent == Some(p)
                                                }
                                            })
                                            .cloned()
                                            .collect();
                                        rec_now = Some(r);
                                    }
                                    checked += 1;
                                    match rec_now {
                                        Some(r) => {
                                            if default_marks != 0 && c.doc.dm != DM::Null {
                                                return Err(("history-default-content-ran-although-recorded".into(), format!("record {}: {} has a recorded value {:?} but its default transition content ran", i, flat[h].id, r)));
                                            }
                                            let a: BTreeSet<String> = after.iter().cloned().collect();
                                            if !r.is_subset(&a) {
                                                return Err(("history-not-restored".into(), format!("record {}: transition {} targets {} (recorded {:?}) but configuration afterwards is {:?}", i, labels[0], flat[h].id, r, after)));
                                            }
                                            let restored: BTreeSet<String> = after
                                                .iter()
                                                .filter(|s| {
                                                    let si = idx(s).unwrap();
                                                    if deep {
                                                        atomic(si) && is_desc(si, p)
                                                    } else {
                                                        flat[si].parent == Some(p)
                                                    }
                                                })
                                                .cloned()
                                                .collect();
                                            if restored != r {
                                                return Err(("history-restored-something-else".into(), format!("record {}: {} recorded {:?} but {:?} became active", i, flat[h].id, r, restored)));
                                            }
                                        }
                                        None => {
                                            if c.doc.dm != DM::Null {
                                                // the default content runs "as part of entering the parent state": once if the
                                                // parent is entered in this microstep, not at all otherwise
                                                let parent_entered = step.iter().any(|r| matches!(r, Rec::Enter(s) if *s == flat[p].id));
                                                let want = if parent_entered { 1 } else { 0 };
                                                if default_marks != want {
                                                    return Err(("history-default-content-count".into(), format!("record {}: first use of {} (parent entered in this microstep: {}): default transition content ran {} times", i, flat[h].id, parent_entered, default_marks)));
                                                }
                                                // position: after the parent's onentry marks, before any child entry
                                                let pos_hist = step.iter().position(|r| matches!(r, Rec::Mark(t, _) if *t == tag)).unwrap_or(0);
                                                if !parent_entered {
                                                    // nothing to position
                                                } else if let Some(pos_parent_enter) = step.iter().position(|r| matches!(r, Rec::Enter(s) if *s == flat[p].id)) {
                                                    let en_prefix = format!("en:{}:", flat[p].id);
                                                    let last_parent_entry_mark = step.iter().rposition(|r| matches!(r, Rec::Mark(t, _) if t.starts_with(&en_prefix)));
                                                    if pos_hist < pos_parent_enter || last_parent_entry_mark.map(|x| x > pos_hist).unwrap_or(false) {
                                                        return Err(("history-default-content-position".into(), format!("record {}: default content of {} ran before the onentry content of its parent {}", i, flat[h].id, flat[p].id)));
                                                    }
                                                    // no child of p entered before the default content
                                                    for (k, r) in step.iter().enumerate() {
                                                        if let Rec::Enter(s) = r {
                                                            if let Some(si) = idx(s) {
                                                                if is_desc(si, p) && k < pos_hist {
                                                                    return Err(("history-default-content-position".into(), format!("record {}: child {} entered before the default content of {}", i, s, flat[h].id)));
                                                                }
                                                            }
                                                        }
                                                    }
                                                }
                                            }
                                        }
                                    }
                                }
                            }
                        }
                    }
                }
                // --- recording at exit
                for r in step {
                    if let Rec::Exit(s) = r {
                        if let Some(si) = idx(s) {
                            for h in flat[si].children.iter().filter(|c| matches!(flat[**c].kind, Kind::History { .. })) {
                                let deep = matches!(flat[*h].kind, Kind::History { deep: true });
                                let r: BTreeSet<String> = before
                                    .iter()
                                    .filter(|x| {
                                        let xi = idx(x).unwrap();
                                        if deep {
                                            atomic(xi) && is_desc(xi, si)
                                        } else {
                                            flat[xi].parent == Some(si)
                                        }
                                    })
                                    .cloned()
                                    .collect();
                                recorded.insert(*h, r);
                            }
                        }
                    }
                }
                last_cfg = after;
                i = j;
            }
            Rec::Idle(_, hist) => {
                // the implementation's stored history value must be what was active at the last exit
                for (hname, vals) in hist {
                    if let Some(h) = idx(hname) {
                        if let Some(r) = recorded.get(&h) {
                            let v: BTreeSet<String> = vals.iter().cloned().collect();
                            if v != *r {
                                return Err(("history-value-stored".into(), format!("record {}: history {} stores {:?} but {:?} was active when its parent was left", i, hname, vals, r)));
                            }
                        } else {
                            return Err(("history-value-without-exit".into(), format!("record {}: history {} has a stored value {:?} although its parent was never exited", i, hname, vals)));
                        }
                    }
                }
            }
            _ => {}
        }
        i += 1;
    }
    Ok(checked)
}

impl Check for C06 {
    fn id(&self) -> &'static str {
        "C06"
    }
    fn rule(&self) -> String {
        "history profile: shallow and deep history pseudo-states in compound and parallel parents (also both in one parent, nested), default transitions with content; event scripts leave the parent from different sub-configurations and return via the history, the parent, or deeper targets. \
         Oracle (a), reference-free: value recorded at the exit of the parent (from the pre-microstep configuration snapshot) must be exactly what is re-entered and what the implementation stores; first use runs the default content once, after the parent's onentry and before child entries; (b) trace equality with the reference interpreter. \
         Non-trivial = at least one re-entry through a history state whose recorded value differs from its default; distinct = hash of document + events + mode."
            .into()
    }
    fn assumptions(&self) -> Vec<String> {
        vec!["oracle (a) is applied to microsteps with a single selected transition that targets exactly one history state".into()]
    }
    fn phases(&self, tier: Tier) -> Vec<Phase> {
        match tier {
            Tier::Quick => vec![Phase::random("history-profile", 25_000, 2048).batch(100).watchdog(30_000)],
            Tier::Thorough => vec![Phase::random("history-profile", 400_000, 2048).batch(200).watchdog(30_000)],
        }
    }
    fn describe(&self, _phase: usize, tape: &[u8]) -> String {
        let c = decode(tape, &Profile::history(), None);
        format!("events {:?} mode {:?}\n{}", c.events, c.mode, c.xml)
    }
    fn min_nontrivial_pct(&self) -> u32 {
        10
    }
    fn run(&self, _phase: usize, tape: &[u8], want_sample: bool) -> CaseResult {
        let c = decode(tape, &Profile::history(), None);
        compare_case(&c, want_sample, &|st, _| st.history_reentry_nondefault, &|c, _rr, first| history_oracle(c, &first.trace).map(|_| ()))
    }
}
