//! C16 — delayed sends fire once, not early, in due-time order, unless cancelled.
//!
//! Generated send/cancel programs run in a sender session D (optionally a second sender D2 that
//! re-uses D's send ids) against a receiver session R.  Every send and cancel is bracketed by
//! time-stamped marks; the oracle uses only invariants that hold for every schedule.

use crate::engine::{hash_str, CaseResult, Check, Phase, Tier};
use crate::scen::*;
use crate::tape::Tape;
use serde_json::json;
use std::collections::BTreeMap;
use std::time::{Duration, Instant};

pub struct C16;

#[derive(Clone, Debug, PartialEq)]
enum IdKind {
    None,
    Literal(String),
    Location(String),
}

#[derive(Clone, Debug)]
struct SendItem {
    k: usize,
    /// exact duration in ms the spelling denotes
    ms: f64,
    spelling: String,
    /// 0 = delay attribute, 1 = delayexpr with a string literal, 2 = delayexpr with a variable
    via: u8,
    id: IdKind,
    to_self: bool,
}

#[derive(Clone, Debug)]
enum Step {
    Send(SendItem),
    Bump,
    /// cancel the id of send `k`; `via_expr` uses sendidexpr
    Cancel { c: usize, k: usize, via_expr: bool },
}

#[derive(Debug)]
struct Program {
    phases: Vec<Vec<Step>>,
}

#[derive(Debug)]
struct Scenario {
    d: Program,
    d2: Option<Program>,
    /// sleep before phase i (ms)
    offsets: Vec<u64>,
    /// D is sent 'fin' after this phase (and a sleep)
    terminate_after: Option<(usize, u64)>,
    jitter: u64,
    ecma: bool,
}

fn spelling(t: &mut Tape, long: bool) -> (f64, String) {
    if long {
        let s = *t.pick(&["1m", "2M", "1h", "0.5h", "1d", "100s"]);
        let ms = match s {
            "1m" => 60_000.0,
            "2M" => 120_000.0,
            "1h" => 3_600_000.0,
            "0.5h" => 1_800_000.0,
            "1d" => 86_400_000.0,
            _ => 100_000.0,
        };
        return (ms, s.to_string());
    }
    let m = 10 + t.below(391) as i64; // 10..400 ms
    match t.below(8) {
        0 | 1 | 2 => (m as f64, format!("{}ms", m)),
        3 => (m as f64, format!("{}MS", m)),
        4 => (m as f64, format!("{}s", m as f64 / 1000.0)),
        5 => {
            // ".05s" - no leading zero
            let s = format!("{}", m as f64 / 1000.0);
            (m as f64, format!("{}S", s.trim_start_matches('0')))
        }
        6 => {
            // fraction of a millisecond
            let f = [0.25, 0.5, 0.4, 0.75][t.below(4)];
            (m as f64 + f, format!("{}ms", m as f64 + f))
        }
        _ => (m as f64, format!("{}s", format!("{:.3}", m as f64 / 1000.0))),
    }
}

fn gen_program(t: &mut Tape, sender: usize, allow_cancel: bool, first_k: usize, shared_ids: &[String]) -> Program {
    let nphases = 1 + t.below(3);
    let mut phases = Vec::new();
    let mut k = first_k;
    let mut c = 0;
    let mut sent: Vec<(usize, IdKind)> = Vec::new();
    let mut literal_ids: Vec<String> = Vec::new();
    for _ in 0..nphases {
        let n = 1 + t.below(6);
        let mut steps = Vec::new();
        for _ in 0..n {
            match t.below(10) {
                0..=5 => {
                    let long = allow_cancel && t.chance(10);
                    let (ms, sp) = spelling(t, long);
                    let id = match t.below(10) {
                        0 | 1 => IdKind::None,
                        2 | 3 => IdKind::Location(format!("loc{}", k)),
                        4 if !literal_ids.is_empty() => IdKind::Literal(t.pick(&literal_ids).clone()),
                        5 if !shared_ids.is_empty() => IdKind::Literal(t.pick(shared_ids).clone()),
                        _ => IdKind::Literal(format!("s{}_{}", sender, k)),
                    };
                    if let IdKind::Literal(s) = &id {
                        if !literal_ids.contains(s) {
                            literal_ids.push(s.clone());
                        }
                    }
                    let item = SendItem { k, ms, spelling: sp, via: t.below(3) as u8, id: id.clone(), to_self: t.chance(25) };
                    sent.push((k, id));
                    steps.push(Step::Send(item));
                    k += 1;
                }
                6 | 7 => steps.push(Step::Bump),
                _ => {
                    let cancellable: Vec<usize> = sent.iter().filter(|(_, id)| *id != IdKind::None).map(|(k, _)| *k).collect();
                    if allow_cancel && !cancellable.is_empty() {
                        steps.push(Step::Cancel { c, k: *t.pick(&cancellable), via_expr: t.bool() });
                        c += 1;
                    } else {
                        steps.push(Step::Bump);
                    }
                }
            }
        }
        phases.push(steps);
    }
    // every long delay gets a cancel in a later step of the last phase unless the tape says otherwise
    if allow_cancel {
        let longs: Vec<(usize, IdKind)> = phases.iter().flatten().filter_map(|s| if let Step::Send(i) = s { if i.ms > 1000.0 { Some((i.k, i.id.clone())) } else { None } } else { None }).collect();
        for (lk, id) in longs {
            if id != IdKind::None && t.chance(80) {
                phases.last_mut().unwrap().push(Step::Cancel { c, k: lk, via_expr: t.bool() });
                c += 1;
            }
        }
    }
    Program { phases }
}

fn decode(tape: &[u8]) -> Scenario {
    let mut t = Tape::new(tape);
    let d = gen_program(&mut t, 1, true, 0, &[]);
    let ids: Vec<String> = d.phases.iter().flatten().filter_map(|s| if let Step::Send(SendItem { id: IdKind::Literal(s), .. }) = s { Some(s.clone()) } else { None }).collect();
    let d2 = if t.chance(40) { Some(gen_program(&mut t, 2, false, 100, &ids)) } else { None };
    let offsets: Vec<u64> = (0..3).map(|i| if i == 0 { 0 } else { [0u64, 5, 20, 60, 120, 200][t.below(6)] + t.below(10) as u64 }).collect();
    let terminate_after = if t.chance(30) { Some((t.below(d.phases.len()), [0u64, 10, 50, 150][t.below(4)])) } else { None };
    let jitter = if t.bool() { 1 + t.u32() as u64 } else { 0 };
    let ecma = t.chance(20);
    Scenario { d, d2, offsets, terminate_after, jitter, ecma }
}

fn program_xml(p: &Program, sender: usize) -> (String, String) {
    // returns (datamodel declarations, transitions)
    let mut decl = String::new();
    let mut trans = String::new();
    for (pi, steps) in p.phases.iter().enumerate() {
        trans.push_str(&format!("    <transition event=\"go{}\">\n", pi));
        for s in steps {
            match s {
                Step::Send(i) => {
                    let mut attrs = format!("event=\"ev.d{}.{}\"", sender, i.k);
                    match &i.id {
                        IdKind::None => {}
                        IdKind::Literal(s) => attrs.push_str(&format!(" id=\"{}\"", s)),
                        IdKind::Location(l) => {
                            decl.push_str(&format!("<data id=\"{}\" expr=\"''\"/>", l));
                            attrs.push_str(&format!(" idlocation=\"{}\"", l));
                        }
                    }
                    if !i.to_self {
                        attrs.push_str(" targetexpr=\"'#_scxml_' + rx\"");
                    }
                    match i.via {
                        0 => attrs.push_str(&format!(" delay=\"{}\"", i.spelling)),
                        1 => attrs.push_str(&format!(" delayexpr=\"'{}'\"", i.spelling)),
                        _ => {
                            decl.push_str(&format!("<data id=\"dl{}\" expr=\"'{}'\"/>", i.k, i.spelling));
                            attrs.push_str(&format!(" delayexpr=\"dl{}\"", i.k));
                        }
                    }
                    trans.push_str(&format!("      <script>mark('sb', {k})</script>\n      <send {a}><param name=\"v\" expr=\"v\"/></send>\n      <script>mark('sa', {k})</script>\n", k = i.k, a = attrs));
                }
                Step::Bump => trans.push_str("      <assign location=\"v\" expr=\"v + 1\"/>\n"),
                Step::Cancel { c, k, via_expr } => {
                    let item = p.phases.iter().flatten().find_map(|s| if let Step::Send(i) = s { if i.k == *k { Some(i) } else { None } } else { None }).unwrap();
                    let a = match (&item.id, via_expr) {
                        (IdKind::Literal(s), false) => format!("sendid=\"{}\"", s),
                        (IdKind::Literal(s), true) => format!("sendidexpr=\"'{}'\"", s),
                        (IdKind::Location(l), _) => format!("sendidexpr=\"{}\"", l),
                        (IdKind::None, _) => unreachable!(),
                    };
                    trans.push_str(&format!("      <script>mark('cb', {c})</script>\n      <cancel {a}/>\n      <script>mark('ca', {c})</script>\n", c = c, a = a));
                }
            }
        }
        trans.push_str(&format!("      <script>mark('pe', {})</script>\n    </transition>\n", pi));
    }
    (decl, trans)
}

fn sender_doc(p: &Program, sender: usize, rx: u32, ecma: bool) -> String {
    let (decl, trans) = program_xml(p, sender);
    let dm = if ecma { "ecmascript" } else { "rfsm-expression" };
    format!(
        r##"<scxml xmlns="http://www.w3.org/2005/07/scxml" version="1.0" name="d{sender}" datamodel="{dm}" initial="run">
  <datamodel><data id="v" expr="0"/><data id="rx" expr="{rx}"/>{decl}</datamodel>
  <state id="run">
{trans}    <transition event="fin" target="done"><script>mark('term')</script></transition>
    <transition event="ev"><script>mark('rx', _event.name, _event.data.v)</script></transition>
    <transition event="error"><script>mark('err', _event.name)</script></transition>
  </state>
  <final id="done"/>
</scxml>"##
    )
}

const RECEIVER: &str = r##"<scxml xmlns="http://www.w3.org/2005/07/scxml" version="1.0" name="r" datamodel="rfsm-expression" initial="run">
  <state id="run">
    <transition event="ev"><script>mark('rx', _event.name, _event.data.v)</script></transition>
    <transition event="error"><script>mark('err', _event.name)</script></transition>
  </state>
</scxml>"##;

/// What the invariants say about one send.
#[derive(Debug, Clone, Copy, PartialEq)]
enum Expect {
    Must,
    MustNot,
    Either,
}

struct Obs {
    item: SendItem,
    sender: usize,
    v_at_send: i64,
    sb: Instant,
    sa: Instant,
}

impl Check for C16 {
    fn id(&self) -> &'static str {
        "C16"
    }
    fn rule(&self) -> String {
        "programs of 1-3 phases x 1-6 steps run by a sender session D (40 %: also a second sender D2 re-using D's send ids, no cancels) against a receiver R: <send> with delay 10-400 ms (spellings Nms, NMS, 0.Ns, .NS, N.NNNs, fractional ms; 10 % long delays 1m..1d), given by delay / delayexpr literal / delayexpr variable; id none / unique / shared with an earlier send / idlocation; target other session or own queue; <param v> whose variable is incremented by later steps; <cancel> by sendid / sendidexpr of an earlier send; phases started by the host 0-210 ms apart; 30 %: D is driven into its final state after a phase; 50 %: lock jitter; 20 %: senders use the ECMAScript data model. \
         Every send and cancel is bracketed by time-stamped marks (sb/sa, cb/ca); receivers mark name, payload, time. Invariants: never processed before sb + d (100 us clock tolerance); never twice; payload = value of v when the send executed; a send cancelled >= 8 ms before sb + d (same session, same id) is never processed; a send whose sa + d is >= 150 ms before the sender's termination / after no cancel is processed (waiting up to 4 s past the last due time); a send due >= 40 ms after the sender's thread ended is never processed; two sends of one sender to one receiver with sa1 + d1 + 3 ms < sb2 + d2 are processed in that order (two senders' timer threads are not ordered against each other); D's cancels never affect D2. \
         Non-trivial = a cancel that must suppress a send, or two sends of one sender whose due order is the reverse of their send order, or a termination that must discard a send; distinct = hash of the program."
            .into()
    }
    fn assumptions(&self) -> Vec<String> {
        vec![
            "time-robust invariants only; sends/cancels inside the uncertainty margins are not judged".into(),
            "two pending sends with the same id: <cancel> is taken to cancel both; without cancel both must be delivered".into(),
            "schedules (timer thread vs session thread) are sampled: OS scheduling, host offsets, optional lock jitter".into(),
        ]
    }
    fn phases(&self, tier: Tier) -> Vec<Phase> {
        match tier {
            Tier::Quick => vec![Phase::random("send-cancel-programs", 2_000, 256).batch(8).watchdog(120_000)],
            Tier::Thorough => vec![Phase::random("send-cancel-programs", 10_000, 256).batch(8).watchdog(120_000)],
        }
    }
    fn max_workers(&self) -> usize {
        16
    }
    fn min_nontrivial_pct(&self) -> u32 {
        20
    }
    fn shrink_budget(&self, _tier: Tier) -> usize {
        60
    }
    fn run(&self, _phase: usize, tape: &[u8], want_sample: bool) -> CaseResult {
        let sc = decode(tape);
        rufsm::verif_sync::set_tracking(sc.jitter != 0);
        rufsm::verif_sync::set_jitter(sc.jitter);
        let mut scen = Scen::new();
        let r = match scen.start(RECEIVER, &[]) {
            Ok(i) => i,
            Err(e) => return CaseResult::error(e),
        };
        let rx_id = scen.id(r);
        let d_xml = sender_doc(&sc.d, 1, rx_id, sc.ecma);
        let d = match scen.start(&d_xml, &[]) {
            Ok(i) => i,
            Err(e) => return CaseResult::error(format!("{} :: {}", e, d_xml)),
        };
        let d2 = match &sc.d2 {
            Some(p) => match scen.start(&sender_doc(p, 2, rx_id, sc.ecma), &[]) {
                Ok(i) => Some(i),
                Err(e) => return CaseResult::error(e),
            },
            None => None,
        };
        let (d_id, d2_id) = (scen.id(d), d2.map(|i| scen.id(i)));
        // run the phases
        let nph = sc.d.phases.len().max(sc.d2.as_ref().map(|p| p.phases.len()).unwrap_or(0));
        let mut t_join: Option<Instant> = None;
        let mut terminated = false;
        for pi in 0..nph {
            std::thread::sleep(Duration::from_millis(sc.offsets[pi.min(2)]));
            if pi < sc.d.phases.len() && !terminated {
                scen.send_name(d, &format!("go{}", pi));
            }
            if let (Some(i), Some(p)) = (d2, &sc.d2) {
                if pi < p.phases.len() {
                    scen.send_name(i, &format!("go{}", pi));
                }
            }
            if let Some((after, wait)) = sc.terminate_after {
                if after == pi && !terminated {
                    std::thread::sleep(Duration::from_millis(wait));
                    scen.send_name(d, "fin");
                    terminated = true;
                    // wait for the thread to end
                    let deadline = Instant::now() + Duration::from_secs(10);
                    while !scen.sessions[d].thread.as_ref().map(|h| h.is_finished()).unwrap_or(true) && Instant::now() < deadline {
                        std::thread::sleep(Duration::from_micros(200));
                    }
                    if scen.sessions[d].thread.as_ref().map(|h| h.is_finished()).unwrap_or(true) {
                        t_join = Some(Instant::now());
                    }
                }
            }
        }
        // wait until all phases were executed: the last mark of each executed phase exists
        let count_expected = |p: &Program, upto: usize| -> usize { p.phases.iter().take(upto).flatten().filter(|s| matches!(s, Step::Send(_))).count() };
        let d_phases_run = match sc.terminate_after {
            Some((after, _)) => after + 1,
            None => sc.d.phases.len(),
        };
        let want_d = count_expected(&sc.d, d_phases_run);
        let want_d2 = sc.d2.as_ref().map(|p| count_expected(p, p.phases.len())).unwrap_or(0);
        let d2_phases = sc.d2.as_ref().map(|p| p.phases.len()).unwrap_or(0);
        let all_run = scen.wait_progress(Duration::from_secs(10), |l| l.count(d_id, "pe") >= d_phases_run && d2_id.map(|i| l.count(i, "pe") >= d2_phases).unwrap_or(true));
        let describe = || format!("D {:?} | D2 {:?} | offsets {:?} terminate {:?} jitter {} datamodel {}", sc.d.phases, sc.d2.as_ref().map(|p| &p.phases), sc.offsets, sc.terminate_after, sc.jitter, if sc.ecma { "ecmascript" } else { "rfsm-expression" });
        let hash = hash_str(&describe());
        let finish = |scen: &mut Scen| {
            rufsm::verif_sync::set_jitter(0);
            scen.cancel_all();
            let r = scen.join_all(Duration::from_secs(10));
            rufsm::verif_sync::set_tracking(false);
            r
        };
        if !all_run {
            let log = scen.log.snapshot();
            let errs: Vec<String> = log.iter().filter(|m| m.tag == "err").map(|m| m.args.join(",")).collect();
            finish(&mut scen);
            return CaseResult::fail(hash, "program-not-executed", format!("only {} of {} sends of D (and {:?} of {} of D2) were executed within 10 s; error events {:?} :: {}", scen.log.count(d_id, "sa"), want_d, d2_id.map(|i| scen.log.count(i, "sa")), want_d2, errs, describe()));
        }
        // ---- derive expectations from the marks
        let log0 = scen.log.snapshot();
        let mark_time = |sid: u32, tag: &str, n: usize| -> Option<Instant> { log0.iter().find(|m| m.session == sid && m.tag == tag && m.args.first().map(|a| a == &n.to_string()).unwrap_or(false)).map(|m| m.t) };
        let t_term = log0.iter().find(|m| m.session == d_id && m.tag == "term").map(|m| m.t);
        let mut obs: Vec<Obs> = Vec::new();
        for (sender, sid, prog, upto) in [(1usize, Some(d_id), Some(&sc.d), d_phases_run), (2, d2_id, sc.d2.as_ref(), usize::MAX)] {
            let (Some(sid), Some(prog)) = (sid, prog) else { continue };
            let mut v = 0i64;
            for s in prog.phases.iter().take(upto).flatten() {
                match s {
                    Step::Bump => v += 1,
                    Step::Send(i) => {
                        if let (Some(sb), Some(sa)) = (mark_time(sid, "sb", i.k), mark_time(sid, "sa", i.k)) {
                            obs.push(Obs { item: i.clone(), sender, v_at_send: v, sb, sa });
                        }
                    }
                    Step::Cancel { .. } => {}
                }
            }
        }
        let dur = |ms: f64| Duration::from_nanos((ms * 1_000_000.0) as u64);
        // cancels of D: (id string or location -> the k's it addresses, cb, ca)
        let mut cancels: Vec<(usize, Instant, Instant)> = Vec::new(); // (k of the addressed send, cb, ca)
        for s in sc.d.phases.iter().take(d_phases_run).flatten() {
            if let Step::Cancel { c, k, .. } = s {
                if let (Some(cb), Some(ca)) = (mark_time(d_id, "cb", *c), mark_time(d_id, "ca", *c)) {
                    cancels.push((*k, cb, ca));
                }
            }
        }
        let id_of = |k: usize| -> IdKind { obs.iter().find(|o| o.sender == 1 && o.item.k == k).map(|o| o.item.id.clone()).unwrap_or(IdKind::None) };
        let same_id = |a: &IdKind, b: &IdKind| -> bool {
            match (a, b) {
                (IdKind::Literal(x), IdKind::Literal(y)) => x == y,
                (IdKind::Location(x), IdKind::Location(y)) => x == y,
                _ => false,
            }
        };
        let margin_cancel = Duration::from_millis(8);
        let margin_term = Duration::from_millis(40);
        let mut expect: Vec<Expect> = Vec::new();
        let mut reasons: Vec<String> = Vec::new();
        for o in &obs {
            let due_lo = o.sb + dur(o.item.ms);
            let due_hi = o.sa + dur(o.item.ms);
            let mut e = Expect::Must;
            let mut why = String::new();
            if o.sender == 1 {
                for (ck, cb, ca) in &cancels {
                    if !same_id(&id_of(*ck), &o.item.id) {
                        continue;
                    }
                    // the cancel only concerns sends executed before it
                    if *cb < o.sa {
                        if *ca > o.sb {
                            e = Expect::Either;
                        }
                        continue;
                    }
                    if *ca + margin_cancel < due_lo {
                        e = Expect::MustNot;
                        why = "cancelled in time".into();
                        break;
                    } else if *cb < due_hi + Duration::from_millis(200) {
                        // cancel raced with the delivery (or delivery was late): not judged
                        if e == Expect::Must {
                            e = Expect::Either;
                        }
                    }
                }
                if e != Expect::MustNot {
                    if let Some(tt) = t_term {
                        if o.item.to_self {
                            // own queue: processed only if due clearly before the session left its loop
                            if due_hi + margin_term >= tt {
                                e = if due_lo > tt { Expect::MustNot } else { Expect::Either };
                                why = "own queue after termination".into();
                            }
                        } else if let Some(tj) = t_join {
                            if due_lo > tj + margin_term {
                                e = Expect::MustNot;
                                why = "sender terminated before the due time".into();
                            } else if due_hi + Duration::from_millis(150) >= tt {
                                // (a starved timer thread may not have fired yet when the session ends)
                                e = Expect::Either;
                            }
                        } else if due_hi + Duration::from_millis(150) >= tt {
                            e = Expect::Either;
                        }
                    }
                }
            }
            // long delays that are neither cancelled nor discarded cannot be awaited
            if e == Expect::Must && o.item.ms > 1000.0 {
                e = Expect::Either;
            }
            expect.push(e);
            reasons.push(why);
        }
        // ---- wait for the deliveries that must happen
        let name_of = |o: &Obs| format!("ev.d{}.{}", o.sender, o.item.k);
        let latest_due = obs.iter().zip(&expect).filter(|(o, e)| **e != Expect::MustNot && o.item.ms <= 1000.0).map(|(o, _)| o.sa + dur(o.item.ms)).max();
        let receiver_of = |o: &Obs| if o.item.to_self { if o.sender == 1 { d_id } else { d2_id.unwrap_or(0) } } else { rx_id };
        let processed = |l: &MarkLog, o: &Obs| l.recs.lock().unwrap().iter().filter(|m| m.tag == "rx" && m.args.first() == Some(&name_of(o))).count();
        if let Some(ld) = latest_due {
            let now = Instant::now();
            if ld > now {
                std::thread::sleep(ld - now);
            }
        }
        let musts: Vec<usize> = (0..obs.len()).filter(|i| expect[*i] == Expect::Must).collect();
        let all_there = scen.wait_progress(Duration::from_secs(4), |l| musts.iter().all(|i| processed(l, &obs[*i]) >= 1));
        // grace period for things that must not arrive
        std::thread::sleep(Duration::from_millis(60));
        let (ended, panics) = finish(&mut scen);
        let log = scen.log.snapshot();
        if !panics.is_empty() {
            return CaseResult::fail(hash, "session-thread-panicked", format!("{} :: {}", panics.join(" | "), describe()));
        }
        let rx_of = |o: &Obs| -> Vec<&MRec> { log.iter().filter(|m| m.tag == "rx" && m.args.first() == Some(&name_of(o))).collect() };
        let show = |o: &Obs| format!("send #{} of D{} (delay '{}' = {} ms via {}, id {:?}, to {})", o.item.k, o.sender, o.item.spelling, o.item.ms, ["delay", "delayexpr literal", "delayexpr variable"][o.item.via as usize], o.item.id, if o.item.to_self { "own queue" } else { "receiver" });
        for (i, o) in obs.iter().enumerate() {
            let got = rx_of(o);
            // routed to the right session
            if let Some(m) = got.iter().find(|m| m.session != receiver_of(o)) {
                return CaseResult::fail(hash, "delivered-to-wrong-session", format!("{} was processed by session {} :: {}", show(o), m.session, describe()));
            }
            if got.len() > 1 {
                return CaseResult::fail(hash, "delivered-twice", format!("{} was processed {} times :: {}", show(o), got.len(), describe()));
            }
            if let Some(m) = got.first() {
                let earliest = o.sb + dur(o.item.ms);
                if m.t + Duration::from_micros(100) < earliest {
                    let early = earliest - m.t;
                    let sig = if o.item.ms.fract() != 0.0 && early < Duration::from_millis(1) { "delivered-early:fraction-of-ms-rounded-down" } else { "delivered-early" };
                    return CaseResult::fail(hash, sig, format!("{} was processed {:?} after the mark before the send, i.e. {:?} early :: {}", show(o), m.t - o.sb, early, describe()));
                }
                let v = m.args.get(1).cloned().unwrap_or_default();
                if v != o.v_at_send.to_string() {
                    return CaseResult::fail(hash, "payload-not-from-send-time", format!("{} carried v={} but v was {} when the send executed :: {}", show(o), v, o.v_at_send, describe()));
                }
            }
            match expect[i] {
                Expect::MustNot if !got.is_empty() => {
                    let sig = if reasons[i].contains("cancel") { "cancelled-send-delivered" } else { "delivered-after-termination" };
                    return CaseResult::fail(hash, sig, format!("{} was processed although: {} :: {}", show(o), reasons[i], describe()));
                }
                Expect::Must if got.is_empty() => {
                    let shared = obs.iter().any(|p| p.sender == o.sender && p.item.k != o.item.k && same_id(&p.item.id, &o.item.id));
                    let sig = if shared { "lost:same-id-pending-twice" } else if o.sender == 2 { "lost:other-session" } else { "lost" };
                    return CaseResult::fail(hash, sig, format!("{} was never processed (waited 4 s past the due time; all present: {}) :: {}", show(o), all_there, describe()));
                }
                _ => {}
            }
        }
        // order by due time
        let mut reversed_pairs = 0;
        for a in 0..obs.len() {
            for b in 0..obs.len() {
                if a == b {
                    continue;
                }
                let (oa, ob) = (&obs[a], &obs[b]);
                if receiver_of(oa) != receiver_of(ob) {
                    continue;
                }
                // one timer thread per session delivers in due order; two sessions' timer threads are only
                // ordered by the OS scheduler, which a loaded machine delays arbitrarily: not judged
                if oa.sender != ob.sender {
                    continue;
                }
                let margin = Duration::from_millis(3);
                if oa.sa + dur(oa.item.ms) + margin < ob.sb + dur(ob.item.ms) {
                    if oa.sender == ob.sender && oa.item.k > ob.item.k {
                        reversed_pairs += 1;
                    }
                    if let (Some(ma), Some(mb)) = (rx_of(oa).first(), rx_of(ob).first()) {
                        if ma.seq > mb.seq {
                            return CaseResult::fail(hash, "due-order-violated", format!("{} is due before {} but was processed after it :: {}", show(oa), show(ob), describe()));
                        }
                    }
                }
            }
        }
        if !ended {
            return CaseResult::fail(hash, "session-did-not-stop", format!("a session did not end within 10 s after cancel :: {}", describe()));
        }
        let n_cancel_effective = expect.iter().zip(&reasons).filter(|(e, r)| **e == Expect::MustNot && r.contains("cancel")).count();
        let n_term = expect.iter().zip(&reasons).filter(|(e, r)| **e == Expect::MustNot && r.contains("termin")).count();
        let nontrivial = n_cancel_effective > 0 || reversed_pairs > 0 || n_term > 0;
        let mut r = CaseResult::pass(hash, nontrivial);
        r.evaluations = obs.len() as u64;
        let mut cls: BTreeMap<&str, bool> = BTreeMap::new();
        cls.insert("effective_cancel", n_cancel_effective > 0);
        cls.insert("termination_discards", n_term > 0);
        cls.insert("due_order_reversed_vs_send_order", reversed_pairs > 0);
        cls.insert("second_sender_same_ids", sc.d2.is_some());
        cls.insert("lock_jitter", sc.jitter != 0);
        cls.insert("ecmascript_senders", sc.ecma);
        cls.insert("shared_id_pending_twice", obs.iter().any(|o| obs.iter().any(|p| p.sender == o.sender && p.item.k != o.item.k && same_id(&p.item.id, &o.item.id))));
        cls.insert("idlocation", obs.iter().any(|o| matches!(o.item.id, IdKind::Location(_))));
        cls.insert("delayexpr", obs.iter().any(|o| o.item.via > 0));
        cls.insert("fractional_ms", obs.iter().any(|o| o.item.ms.fract() != 0.0));
        cls.insert("long_delay", obs.iter().any(|o| o.item.ms > 1000.0));
        cls.insert("unjudged_send", expect.iter().any(|e| *e == Expect::Either));
        for (k, v) in cls {
            if v {
                r.classes.push(k.to_string());
            }
        }
        if want_sample {
            r.sample = Some(json!({
                "scenario": describe(),
                "sends": obs.iter().zip(&expect).map(|(o, e)| json!({"send": show(o), "expect": format!("{:?}", e), "processed_after_ms": rx_of(o).first().map(|m| (m.t - o.sb).as_secs_f64() * 1000.0)})).collect::<Vec<_>>(),
            }));
        }
        r
    }
}
