//! C13 — concurrent external events are each processed exactly once, in sender order, without overlap.

use crate::engine::{hash_str, CaseResult, Check, Phase, Tier};
use crate::scen::*;
use crate::tape::Tape;
use rufsm::datamodel::Data;
use rufsm::fsm::{Event, ParamPair};
use serde_json::json;
use std::sync::{Arc, Barrier};
use std::time::Duration;

pub struct C13;

const RECEIVER: &str = r##"<scxml xmlns="http://www.w3.org/2005/07/scxml" version="1.0" name="rx" datamodel="rfsm-expression">
  <datamodel><data id="last" expr="''"/><data id="k" expr="0"/></datamodel>
  <state id="s">
    <transition event="p">
      <assign location="last" expr="_event.name"/>
      <script>mark('x', _event.name)</script>
      <raise event="f1"/>
      <script>pause(PAUSE)</script>
      <raise event="f2"/>
    </transition>
    <transition event="f1"><script>mark('f1', last)</script></transition>
    <transition event="f2"><script>mark('f2', last)</script></transition>
    <transition event="arm">
      <foreach array="_event.data.ks" item="k">
        <send eventexpr="'p.' + _event.data.who + '.' + k" delayexpr="(k + 1) + 'ms'"/>
      </foreach>
    </transition>
    <transition event="kick">
      <send target="#_kid" event="burst"><param name="who" expr="_event.data.who"/><param name="ks" location="_event.data.ks"/></send>
    </transition>
    <transition event="stop" target="done"/>
    INVOKE
  </state>
  <final id="done"/>
</scxml>"##;

/// Invoked by the receiver when the scenario has an `InvokedChild` producer: answers `burst` with
/// a run of events to `#_parent`.
const CHILD_INVOKE: &str = r##"<invoke id="kid" type="scxml"><content>
      <scxml xmlns="http://www.w3.org/2005/07/scxml" version="1.0" name="kid" datamodel="rfsm-expression">
        <datamodel><data id="k" expr="0"/></datamodel>
        <state id="c">
          <transition event="burst">
            <foreach array="_event.data.ks" item="k">
              <send eventexpr="'p.' + _event.data.who + '.' + k" target="#_parent"/>
            </foreach>
          </transition>
        </state>
      </scxml>
    </content></invoke>"##;

const SENDER: &str = r#"<scxml xmlns="http://www.w3.org/2005/07/scxml" version="1.0" name="tx" datamodel="rfsm-expression">
  <datamodel><data id="k" expr="0"/></datamodel>
  <state id="s">
    <transition event="burst">
      <foreach array="_event.data.ks" item="k">
        <send eventexpr="'p.' + _event.data.who + '.' + k" targetexpr="'#_scxml_' + _event.data.rx"/>
      </foreach>
    </transition>
    <transition event="stop" target="done"/>
  </state>
  <final id="done"/>
</scxml>"#;

#[derive(Clone, Copy, Debug, PartialEq)]
enum Kind {
    HostSender,
    HostExecutor,
    SiblingSession,
    Timers,
    InvokedChild,
}

struct Producer {
    kind: Kind,
    count: usize,
    sleep_every: usize,
    sleep_us: u64,
}

struct Scenario {
    producers: Vec<Producer>,
    pause_us: u64,
    jitter: u64,
}

fn decode(tape: &[u8]) -> Scenario {
    let mut t = Tape::new(tape);
    let n = 1 + t.below(8);
    let mut producers = Vec::new();
    let mut timers = 0;
    let mut kids = 0;
    for _ in 0..n {
        let mut kind = match t.below(7) {
            0 | 1 => Kind::HostSender,
            2 | 3 => Kind::HostExecutor,
            4 => Kind::SiblingSession,
            5 => Kind::Timers,
            _ => Kind::InvokedChild,
        };
        if kind == Kind::InvokedChild {
            // one invoked child per receiver (fixed invoke id)
            kids += 1;
            if kids > 1 {
                kind = Kind::HostExecutor;
            }
        }
        if kind == Kind::Timers {
            timers += 1;
            if timers > 1 {
                kind = Kind::HostSender;
            }
        }
        let count = match kind {
            Kind::Timers => 1 + t.below(15),
            _ => 1 + t.below(60),
        };
        producers.push(Producer { kind, count, sleep_every: t.below(8), sleep_us: t.below(300) as u64 });
    }
    Scenario { producers, pause_us: if t.chance(30) { t.below(200) as u64 } else { 0 }, jitter: if t.bool() { 1 + t.u32() as u64 } else { 0 } }
}

fn int_array(n: usize) -> Data {
    Data::Array((0..n).map(|i| rufsm::datamodel::create_data_arc(Data::Integer(i as i64))).collect())
}

impl Check for C13 {
    fn id(&self) -> &'static str {
        "C13"
    }
    fn rule(&self) -> String {
        "scenarios with 1-8 concurrent producers (released by a barrier) x 1-60 events each, producers of five kinds: host thread through a clone of the session's sender, host thread through FsmExecutor::send_to_session, a sibling session that sends in a <foreach>, delayed self-sends fired by the timer thread, a child session invoked by the receiver that sends to '#_parent' in a <foreach>; generated sleeps in the producers, an optional pause inside the receiver's macrostep, optional seeded jitter at lock acquisitions (hook). \
         Receiver: stores _event.name, marks it, raises two internal follow-up events whose handlers mark the stored name. Oracle on the receiver's mark log: multiset processed == multiset sent (exactly once); every producer's events in its send order; each event immediately followed by its own two follow-up marks (no overlap of macrosteps). \
         Non-trivial = >= 2 producers whose events are genuinely interleaved in the processing order; distinct = hash of the observed order."
            .into()
    }
    fn assumptions(&self) -> Vec<String> {
        vec!["schedules are sampled (OS scheduler, generated sleeps, lock jitter), not enumerated".into(), "an event counts as lost when the receiver has processed nothing for 8 s after all producers finished".into()]
    }
    fn phases(&self, tier: Tier) -> Vec<Phase> {
        match tier {
            Tier::Quick => vec![Phase::random("producer-scenarios", 3_000, 256).batch(20).watchdog(60_000)],
            Tier::Thorough => vec![Phase::random("producer-scenarios", 40_000, 256).batch(20).watchdog(60_000)],
        }
    }
    fn max_workers(&self) -> usize {
        6
    }
    fn min_nontrivial_pct(&self) -> u32 {
        30
    }
    fn run(&self, _phase: usize, tape: &[u8], want_sample: bool) -> CaseResult {
        let sc = decode(tape);
        // the jitter is only injected by the tracking path of the instrumented mutex
        rufsm::verif_sync::set_tracking(sc.jitter != 0);
        rufsm::verif_sync::set_jitter(sc.jitter);
        let mut scen = Scen::new();
        let has_kid = sc.producers.iter().any(|p| p.kind == Kind::InvokedChild);
        let rx = match scen.start(&RECEIVER.replace("PAUSE", &sc.pause_us.to_string()).replace("INVOKE", if has_kid { CHILD_INVOKE } else { "" }), &[]) {
            Ok(i) => i,
            Err(e) => return CaseResult::error(e),
        };
        let rx_id = scen.id(rx);
        // sibling sender sessions
        let mut sibling_of: Vec<Option<usize>> = Vec::new();
        for p in &sc.producers {
            if p.kind == Kind::SiblingSession {
                match scen.start(SENDER, &[]) {
                    Ok(i) => sibling_of.push(Some(i)),
                    Err(e) => return CaseResult::error(e),
                }
            } else {
                sibling_of.push(None);
            }
        }
        let barrier = Arc::new(Barrier::new(sc.producers.len()));
        let mut expected: Vec<Vec<String>> = Vec::new();
        let mut handles = Vec::new();
        for (i, p) in sc.producers.iter().enumerate() {
            let names: Vec<String> = (0..p.count).map(|k| format!("p.{}.{}", i, k)).collect();
            expected.push(names.clone());
            let b = barrier.clone();
            let sender = scen.sessions[rx].sender.clone();
            let exec = scen.exec.clone();
            let kind = p.kind;
            let (se, su) = (p.sleep_every, p.sleep_us);
            let sib_sender = sibling_of[i].map(|s| scen.sessions[s].sender.clone());
            let count = p.count;
            handles.push(std::thread::spawn(move || {
                b.wait();
                match kind {
                    Kind::HostSender | Kind::HostExecutor => {
                        for (k, n) in names.iter().enumerate() {
                            if kind == Kind::HostSender {
                                let _ = sender.send(Box::new(Event::new_simple(n)));
                            } else {
                                let _ = exec.send_to_session(rx_id, Event::new_simple(n));
                            }
                            if se > 0 && k % se == se - 1 {
                                if su == 0 {
                                    std::thread::yield_now();
                                } else {
                                    std::thread::sleep(Duration::from_micros(su));
                                }
                            }
                        }
                    }
                    Kind::SiblingSession => {
                        let mut e = Event::new_simple("burst");
                        e.param_values = Some(vec![ParamPair::new("ks", &int_array(count)), ParamPair::new("who", &Data::Integer(i as i64)), ParamPair::new("rx", &Data::Integer(rx_id as i64))]);
                        let _ = sib_sender.unwrap().send(Box::new(e));
                    }
                    Kind::InvokedChild => {
                        let mut e = Event::new_simple("kick");
                        e.param_values = Some(vec![ParamPair::new("ks", &int_array(count)), ParamPair::new("who", &Data::Integer(i as i64))]);
                        let _ = sender.send(Box::new(e));
                    }
                    Kind::Timers => {
                        let mut e = Event::new_simple("arm");
                        e.param_values = Some(vec![ParamPair::new("ks", &int_array(count)), ParamPair::new("who", &Data::Integer(i as i64))]);
                        let _ = sender.send(Box::new(e));
                    }
                }
            }));
        }
        for h in handles {
            let _ = h.join();
        }
        let total: usize = expected.iter().map(|v| v.len()).sum();
        let all_seen = scen.wait_progress(Duration::from_secs(8), |l| l.count(rx_id, "f2") >= total);
        rufsm::verif_sync::set_jitter(0);
        rufsm::verif_sync::set_tracking(false);
        for i in 0..scen.sessions.len() {
            scen.send_name(i, "stop");
        }
        let (ended, panics) = scen.join_all(Duration::from_secs(10));
        let log = scen.log.of(rx_id);
        let order: Vec<String> = log.iter().filter(|r| r.tag == "x").map(|r| r.args.first().cloned().unwrap_or_default()).collect();
        let hash = hash_str(&order.join(","));
        let describe = || format!("producers {:?}, pause {} us, jitter {}", sc.producers.iter().map(|p| (p.kind, p.count)).collect::<Vec<_>>(), sc.pause_us, sc.jitter);
        if !panics.is_empty() {
            return CaseResult::fail(hash, "session-thread-panicked", format!("{} :: {}", panics.join(" | "), describe()));
        }
        // exactly once
        let mut sent: Vec<String> = expected.iter().flatten().cloned().collect();
        let mut got = order.clone();
        sent.sort();
        got.sort();
        if sent != got {
            let missing: Vec<&String> = sent.iter().filter(|s| !got.contains(s)).take(5).collect();
            let mut dup: Vec<&String> = Vec::new();
            for w in got.windows(2) {
                if w[0] == w[1] {
                    dup.push(&w[0]);
                }
            }
            let sig = if !dup.is_empty() { "event-processed-twice" } else if !missing.is_empty() { "event-lost" } else { "unexpected-event" };
            return CaseResult::fail(hash, sig, format!("{} events sent, {} processed (all follow-ups seen: {}); missing e.g. {:?}, duplicated e.g. {:?} :: {}", sent.len(), got.len(), all_seen, missing, dup.iter().take(5).collect::<Vec<_>>(), describe()));
        }
        // per-producer order
        for (i, names) in expected.iter().enumerate() {
            let prefix = format!("p.{}.", i);
            let sub: Vec<&String> = order.iter().filter(|n| n.starts_with(&prefix)).collect();
            if sub.iter().map(|s| s.as_str()).collect::<Vec<_>>() != names.iter().map(|s| s.as_str()).collect::<Vec<_>>() {
                let pos = sub.iter().zip(names.iter()).position(|(a, b)| *a != b).unwrap_or(0);
                return CaseResult::fail(hash, &format!("sender-order:{:?}", sc.producers[i].kind), format!("producer {} ({:?}): sent {:?}.. but processed {:?}.. (first difference at {}) :: {}", i, sc.producers[i].kind, names.iter().skip(pos.saturating_sub(1)).take(4).collect::<Vec<_>>(), sub.iter().skip(pos.saturating_sub(1)).take(4).collect::<Vec<_>>(), pos, describe()));
            }
        }
        // no overlap: x(n) f1(n) f2(n) triples
        let seq: Vec<(&str, &str)> = log.iter().filter(|r| matches!(r.tag.as_str(), "x" | "f1" | "f2")).map(|r| (r.tag.as_str(), r.args.first().map(|s| s.as_str()).unwrap_or(""))).collect();
        for (i, c) in seq.chunks(3).enumerate() {
            let ok = c.len() == 3 && c[0].0 == "x" && c[1].0 == "f1" && c[2].0 == "f2" && c[0].1 == c[1].1 && c[1].1 == c[2].1;
            if !ok {
                return CaseResult::fail(hash, "macrosteps-overlap", format!("record {}: expected x,f1,f2 of one event, observed {:?} :: {}", i * 3, c, describe()));
            }
        }
        if !ended {
            return CaseResult::fail(hash, "session-did-not-stop", format!("a session did not end within 10 s after 'stop' :: {}", describe()));
        }
        // non-trivial: genuine interleaving of >= 2 producers
        let owner = |n: &str| n.split('.').nth(1).unwrap_or("").to_string();
        let mut switches = 0;
        for w in order.windows(2) {
            if owner(&w[0]) != owner(&w[1]) {
                switches += 1;
            }
        }
        let nontrivial = sc.producers.len() >= 2 && switches >= sc.producers.len();
        let mut r = CaseResult::pass(hash, nontrivial);
        r.evaluations = total as u64;
        for p in &sc.producers {
            r.classes.push(format!("producer_{:?}", p.kind));
        }
        if sc.jitter != 0 {
            r.classes.push("lock_jitter".into());
        }
        if want_sample {
            r.sample = Some(json!({"scenario": describe(), "events": total, "producer_switches_in_processing_order": switches, "order_head": order.iter().take(25).collect::<Vec<_>>()}));
        }
        r
    }
}
