//! C05 — the binary .rfsm round trip preserves the model and its behaviour.

use crate::checks::c04::{first_diff, gen_full_case, parse_rendered};
use crate::doc::Profile;
use crate::dump::{dump, Flavour};
use crate::engine::{hash_str, CaseResult, Check, Phase, Tier};
use crate::runner::{diff_traces, run_session};
use crate::serial::*;
use crate::sess::{decode, reference_run};
use crate::tape::Tape;
use rufsm::datamodel::Data;
use rufsm::serializer::default_protocol_reader::DefaultProtocolReader;
use rufsm::serializer::default_protocol_writer::DefaultProtocolWriter;
use rufsm::serializer::protocol_reader::ProtocolReader;
use rufsm::serializer::protocol_writer::ProtocolWriter;
use serde_json::json;
use std::time::Duration;

pub struct C05;

fn classify(a: &str, b: &str) -> String {
    let la: Vec<&str> = a.lines().collect();
    let lb: Vec<&str> = b.lines().collect();
    for i in 0..la.len().max(lb.len()) {
        if la.get(i) != lb.get(i) {
            let w = |l: Option<&&str>| l.map(|s| s.trim().split(|c: char| c == ' ' || c == '[' || c == ':').next().unwrap_or("").to_string()).unwrap_or_else(|| "end".into());
            // which field differs? first differing token
            let fa: Vec<&str> = la.get(i).map(|s| s.split(' ').collect()).unwrap_or_default();
            let fb: Vec<&str> = lb.get(i).map(|s| s.split(' ').collect()).unwrap_or_default();
            let field = fa.iter().zip(fb.iter()).find(|(x, y)| x != y).map(|(x, _)| x.split('=').next().unwrap_or("").to_string()).unwrap_or_default();
            return format!("roundtrip:{}:{}", w(la.get(i)), field);
        }
    }
    "roundtrip:none".into()
}

/// primitive level: value written == value read
fn primitive_case(t: &mut Tape, idx: Option<u64>) -> CaseResult {
    // u64
    let v: u64 = match idx {
        Some(i) => {
            // exhaustive: 2^k - 1, 2^k, 2^k + 1 for k in 0..=64
            let k = (i / 3) as u32;
            let base: u128 = 1u128 << k;
            let x = match i % 3 {
                0 => base - 1,
                1 => base,
                _ => base + 1,
            };
            if x > u64::MAX as u128 {
                u64::MAX
            } else {
                x as u64
            }
        }
        None => {
            if t.chance(40) {
                *t.pick(&U64_EDGES)
            } else {
                t.u64() >> t.below(64)
            }
        }
    };
    let slen = if idx.is_some() { (idx.unwrap() as usize * 67) % 4200 } else { *t.pick(&LEN_CLASSES) };
    let s = gen_string(t, slen);
    let olen = t.below(40);
    let opt: Option<String> = if t.bool() { Some(gen_string(t, olen)) } else { None };
    let b = t.bool();
    let d = gen_data(t, 0);
    let r = std::panic::catch_unwind(std::panic::AssertUnwindSafe(|| {
        let mut w = DefaultProtocolWriter::new(Vec::new());
        w.write_uint(v);
        w.write_str(&s);
        w.write_option_string(&opt);
        w.write_boolean(b);
        w.write_data(&d);
        w.write_usize(v as usize);
        w.close();
        let err = w.has_error();
        let bytes = w.get_writer().clone();
        let mut rd = DefaultProtocolReader::new(&bytes[..]);
        let v2 = rd.read_uint();
        let s2 = rd.read_string();
        let o2 = rd.read_option_string();
        let b2 = rd.read_boolean();
        let d2 = rd.read_data();
        let u2 = rd.read_usize();
        (err, rd.has_error(), v2, s2, o2, b2, d2, u2)
    }));
    let hash = hash_str(&format!("{}|{}|{:?}|{}", v, s.len(), opt, crate::dump::data_text(&d, true)));
    let nontrivial = v >= 15 || s.len() >= 15;
    match r {
        Err(_) => CaseResult::fail(hash, "primitive:panic", format!("u64 {} / string of {} bytes / data {}: {}", v, s.len(), crate::dump::data_text(&d, true), crate::engine::last_panic())),
        Ok((werr, rerr, v2, s2, o2, b2, d2, u2)) => {
            if werr || rerr {
                return CaseResult::fail(hash, "primitive:error-flag", format!("writer error {} reader error {} for u64 {} / string of {} bytes", werr, rerr, v, s.len()));
            }
            if v2 != v {
                return CaseResult::fail(hash, "primitive:u64", format!("u64 {} (0x{:x}) read back as {} (0x{:x})", v, v, v2, v2));
            }
            if s2 != s {
                return CaseResult::fail(hash, "primitive:string", format!("string of {} bytes read back as {} bytes", s.len(), s2.len()));
            }
            if o2 != opt || b2 != b || u2 != v as usize {
                return CaseResult::fail(hash, "primitive:option-bool-usize", format!("{:?}/{}/{} read back as {:?}/{}/{}", opt, b, v, o2, b2, u2));
            }
            if crate::dump::data_text(&d2, true) != crate::dump::data_text(&d, true) {
                return CaseResult::fail(hash, "primitive:data", format!("data {} read back as {}", crate::dump::data_text(&d, true), crate::dump::data_text(&d2, true)));
            }
            let _ = Data::Null();
            let mut r = CaseResult::pass(hash, nontrivial);
            r.evaluations = 6;
            r
        }
    }
}

impl Check for C05 {
    fn id(&self) -> &'static str {
        "C05"
    }
    fn rule(&self) -> String {
        "structural: models parsed from full-grammar documents (all element kinds), then mutated through the public fields: transition/content ids under a random bijection of u32 anchored at a nibble-width boundary, document ids under a monotone map, \
         delay_ms from the u64 edge set (incl. 2^60, u64::MAX), strings of length classes {0,1,15,16,17,4094,4095,4096,4097,9000} with multi-byte UTF-8, nested Data values in <data>; write -> read -> raw dump must be identical and no error flagged. \
         behavioural: executable documents (engine generator) run as parsed and as reloaded on the same generated events: projected traces must be identical. primitives: u64/string/Option<String>/bool/Data written and read back (all 2^k-1, 2^k, 2^k+1 exhaustively + random). \
         Non-trivial = an id or length at a width boundary, a big delay, a long string or nested data in the model; distinct = hash of the raw dump / values."
            .into()
    }
    fn assumptions(&self) -> Vec<String> {
        vec!["fields the writer does not persist by design (version, statesNames, Send.parent_state_name, Invoke.parent_state_name when an id is given, isFirstEntry) are not compared".into()]
    }
    fn phases(&self, tier: Tier) -> Vec<Phase> {
        match tier {
            Tier::Quick => vec![
                Phase::random("structural-roundtrip", 4_000, 4096).batch(100).watchdog(30_000),
                Phase::random("behavioural-roundtrip", 2_000, 2048).batch(100).watchdog(30_000),
                Phase::random("primitives-random", 60_000, 256).batch(2000),
                Phase::indexed("primitives-width-boundaries", 65 * 3, true).batch(50),
            ],
            Tier::Thorough => vec![
                Phase::random("structural-roundtrip", 80_000, 4096).batch(200).watchdog(30_000),
                Phase::random("behavioural-roundtrip", 30_000, 2048).batch(200).watchdog(30_000),
                Phase::random("primitives-random", 5_000_000, 256).batch(5000),
                Phase::indexed("primitives-width-boundaries", 65 * 3, true).batch(50),
            ],
        }
    }
    fn run(&self, phase: usize, tape: &[u8], want_sample: bool) -> CaseResult {
        match phase {
            0 => {
                let c = gen_full_case(tape);
                let mut fsm = match parse_rendered(&c.a, "c05") {
                    Ok(m) => m,
                    Err(e) => return CaseResult::discard(&format!("reader: {}", e.chars().take(60).collect::<String>())),
                };
                // the mutation choices come from the end of the tape (independent of the document part)
                let mut rev: Vec<u8> = tape.to_vec();
                rev.reverse();
                let mut t = Tape::new(&rev);
                let st = mutate_model(&mut fsm, &mut t);
                let before = dump(&fsm, Flavour::Raw);
                let hash = hash_str(&before);
                let (image, werr) = match write_fsm(&fsm) {
                    Ok(x) => x,
                    Err(e) => return CaseResult::fail(hash, "writer-panics", e),
                };
                if werr {
                    return CaseResult::fail(hash, "writer-error-on-valid-model", "has_error() after writing to a Vec".into());
                }
                let back = match read_fsm(&image) {
                    ReadOutcome::Ok(f) => f,
                    ReadOutcome::Err(e) => return CaseResult::fail(hash, "reader-rejects-own-image", format!("{} (image {} bytes)", e, image.len())),
                    ReadOutcome::Panic(p) => return CaseResult::fail(hash, "reader-panics-on-own-image", format!("{} (image {} bytes)", p, image.len())),
                };
                let after = dump(&back, Flavour::Raw);
                if after != before {
                    return CaseResult::fail(hash, &classify(&before, &after), format!("model changed by write+read at {}", first_diff(&before, &after)));
                }
                let nontrivial = st.width_boundary_hits > 0 || st.big_delay || st.long_strings > 0 || st.nested_data;
                let mut r = CaseResult::pass(hash, nontrivial);
                if st.big_delay {
                    r.classes.push("delay_ge_2^60".into());
                }
                if st.long_strings > 0 {
                    r.classes.push("string_ge_4096".into());
                }
                if st.nested_data {
                    r.classes.push("nested_data_values".into());
                }
                if st.width_boundary_hits > 0 {
                    r.classes.push("id_at_width_boundary".into());
                }
                for p in &st.planted {
                    r.classes.push(format!("planted_string_in_{}", p));
                }
                if want_sample {
                    r.sample = Some(json!({"image_bytes": image.len(), "raw_dump_head": before.lines().take(30).collect::<Vec<_>>()}));
                }
                r
            }
            1 => {
                let c = decode(tape, &Profile::structure(), None);
                let rr = reference_run(&c.doc, &c.events, c.mode);
                if !rr.completed {
                    return CaseResult::discard("reference model exceeds 200 microsteps in a macrostep");
                }
                let hash = hash_str(&format!("{}|{:?}", c.xml, c.events));
                let Ok(fsm) = crate::runner::parse(&c.xml) else { return CaseResult::discard("reader") };
                let (image, werr) = match write_fsm(&fsm) {
                    Ok(x) => x,
                    Err(e) => return CaseResult::fail(hash, "writer-panics", e),
                };
                if werr {
                    return CaseResult::fail(hash, "writer-error-on-valid-model", "has_error() after writing to a Vec".into());
                }
                let back = match read_fsm(&image) {
                    ReadOutcome::Ok(f) => f,
                    ReadOutcome::Err(e) => return CaseResult::fail(hash, "reader-rejects-own-image", e),
                    ReadOutcome::Panic(p) => return CaseResult::fail(hash, "reader-panics-on-own-image", p),
                };
                let a = run_session(fsm, &c.events, c.mode, Duration::from_secs(8));
                let b = run_session(back, &c.events, c.mode, Duration::from_secs(8));
                if a.timed_out || b.timed_out {
                    return CaseResult::error("session did not end".into());
                }
                if a.panicked.is_some() != b.panicked.is_some() {
                    return CaseResult::fail(hash, "behaviour:panic", format!("original panicked: {:?}, reloaded panicked: {:?}\n{}", a.panicked, b.panicked, c.xml));
                }
                if let Some(d) = diff_traces(&a.trace, &b.trace) {
                    return CaseResult::fail(hash, "behaviour:trace", format!("original vs reloaded machine: {}events {:?}\n{}", d, c.events, c.xml));
                }
                if a.final_cfg != b.final_cfg {
                    return CaseResult::fail(hash, "behaviour:final-configuration", format!("{:?} vs {:?}", a.final_cfg, b.final_cfg));
                }
                let mut r = CaseResult::pass(hash, rr.stats.microsteps >= 2);
                r.classes.push("behavioural".into());
                if want_sample {
                    r.sample = Some(json!({"scxml": c.xml, "events": c.events, "trace_head": a.trace.iter().take(30).map(|x| format!("{:?}", x)).collect::<Vec<_>>()}));
                }
                r
            }
            2 => {
                let mut t = Tape::new(tape);
                primitive_case(&mut t, None)
            }
            _ => {
                let idx = u64::from_le_bytes(tape[..8].try_into().unwrap());
                let seed = idx.to_le_bytes();
                let mut t = Tape::new(&seed);
                primitive_case(&mut t, Some(idx))
            }
        }
    }
}
