//! C14 — invoked child sessions follow the SCXML invoke life cycle.
//!
//! Parent/child document pairs from templates with generated parameters, driven by a generated
//! host script (enter / leave / re-enter the invoking state, a state entered and left within one
//! macrostep, host events, stop requests) with generated pauses.  All sessions write one merged,
//! time-stamped mark log; the oracle is a set of history invariants over that log.

use crate::engine::{hash_str, CaseResult, Check, Phase, Tier};
use crate::scen::*;
use crate::tape::Tape;
use serde_json::json;
use std::collections::{BTreeMap, BTreeSet};
use std::time::{Duration, Instant};

pub struct C14;

#[derive(Clone, Debug)]
struct Inv {
    tag: String,
    /// explicit id (= tag) or generated id stored in a variable
    explicit_id: bool,
    autoforward: bool,
    /// 0 burst+final, 1 ticking+final, 2 ticking then waits for stop, 3 never ends, 4 like 2 with a grandchild
    kind: usize,
    k: usize,
    /// how x is passed: 0 namelist, 1 param with expression, 2 not at all
    pass_x: usize,
    /// pass a value for a name the child does not declare: 0 no, 1 namelist, 2 param
    pass_undeclared: usize,
    finalize: bool,
}

#[derive(Clone, Debug)]
enum Op {
    EnterA,
    LeaveA,
    Flash,
    Host(usize),
    Stop,
    SleepUs(u64),
    EnterB,
    LeaveB,
}

#[derive(Debug)]
struct Scenario {
    invs: Vec<Inv>,
    /// invoking state is one region of a parallel whose other region invokes, too
    parallel: bool,
    ops: Vec<Op>,
    ecma: bool,
    jitter: u64,
    /// a second, independent invoking state B in a parallel sibling region
    with_b: bool,
}

fn decode(tape: &[u8]) -> Scenario {
    let mut t = Tape::new(tape);
    let n = 1 + t.below(3);
    let mut invs = Vec::new();
    for i in 0..n {
        invs.push(Inv {
            tag: format!("i{}", i + 1),
            explicit_id: t.chance(60),
            autoforward: t.chance(45),
            kind: t.below(5),
            k: t.below(5),
            pass_x: t.below(3),
            pass_undeclared: t.below(3),
            finalize: t.chance(60),
        });
    }
    let parallel = n >= 2 && t.chance(35);
    let with_b = t.chance(45);
    let nops = 3 + t.below(14);
    let mut ops = vec![Op::EnterA];
    if with_b {
        ops.push(Op::EnterB);
    }
    let mut h = 0;
    for _ in 0..nops {
        let op = match t.below(14) {
            0 | 1 => Op::EnterA,
            2 | 3 => Op::LeaveA,
            4 => Op::Flash,
            5..=8 => {
                h += 1;
                Op::Host(h)
            }
            9 => Op::Stop,
            10 | 11 if with_b => {
                if t.bool() {
                    Op::EnterB
                } else {
                    Op::LeaveB
                }
            }
            _ => Op::SleepUs([0u64, 50, 300, 1_000, 3_000, 8_000][t.below(6)]),
        };
        ops.push(op);
    }
    Scenario { invs, parallel, ops, ecma: t.chance(20), jitter: if t.bool() { 1 + t.u32() as u64 } else { 0 }, with_b }
}

fn grandchild_doc(dm: &str) -> String {
    format!(
        r##"<scxml xmlns="http://www.w3.org/2005/07/scxml" version="1.0" name="grandkid" datamodel="{dm}" initial="w"><datamodel><data id="gen" expr="-1"/></datamodel><state id="w"><onentry><script>mark('kid.start', 'g', gen, 0, 0)</script></onentry><onexit><script>mark('kid.exit', 'g', gen)</script></onexit></state></scxml>"##
    )
}

fn child_doc(i: &Inv, dm: &str) -> String {
    let t = &i.tag;
    let tick = if i.kind == 0 { "<raise event=\"tick\"/>".to_string() } else { "<send event=\"tick\" delay=\"1ms\"/>".to_string() };
    let fin = match i.kind {
        0 | 1 => format!("<transition event=\"tick\" cond=\"n &gt;= {}\" target=\"fin\"/>", i.k),
        2 | 4 => "<transition event=\"stop\" target=\"fin\"/>".to_string(),
        _ => String::new(),
    };
    let grand = if i.kind == 4 { format!("<invoke type=\"scxml\" id=\"g\"><param name=\"gen\" expr=\"gen\"/><content>{}</content></invoke>", grandchild_doc(dm)) } else { String::new() };
    let probe_y = if i.pass_undeclared != 0 { "<onentry><script>mark('kid.y', yy)</script></onentry>" } else { "" };
    format!(
        r##"<scxml xmlns="http://www.w3.org/2005/07/scxml" version="1.0" name="kid_{t}" datamodel="{dm}" initial="run">
<datamodel><data id="x" expr="1"/><data id="z" expr="3"/><data id="gen" expr="-1"/><data id="n" expr="0"/></datamodel>
<state id="run">
<onentry><script>mark('kid.start', '{t}', gen, x, z)</script></onentry>
{probe_y}
<onentry>{tick}</onentry>
<onexit><script>mark('kid.exit', '{t}', gen)</script></onexit>
{grand}
<transition event="tick" cond="n &lt; {k}"><assign location="n" expr="n + 1"/><script>mark('kid.tx', '{t}', gen, n)</script><send event="c.{t}" target="#_parent"><param name="k" expr="n"/><param name="gen" expr="gen"/></send>{tick}</transition>
{fin}
<transition event="h"><script>mark('kid.rx', '{t}', gen, _event.name)</script></transition>
</state>
<final id="fin"><onentry><script>mark('kid.final', '{t}', gen)</script></onentry></final>
</scxml>"##,
        t = t,
        dm = dm,
        probe_y = probe_y,
        tick = tick,
        grand = grand,
        k = i.k,
        fin = fin
    )
}

fn invoke_xml(i: &Inv, dm: &str) -> String {
    let mut a = String::from("type=\"scxml\"");
    if i.explicit_id {
        a.push_str(&format!(" id=\"{}\"", i.tag));
    } else {
        a.push_str(&format!(" idlocation=\"id_{}\"", i.tag));
    }
    if i.autoforward {
        a.push_str(" autoforward=\"true\"");
    }
    let mut names = Vec::new();
    if i.pass_x == 0 {
        names.push("x");
    }
    if i.pass_undeclared == 1 {
        names.push("yy");
    }
    if !names.is_empty() {
        a.push_str(&format!(" namelist=\"{}\"", names.join(" ")));
    }
    let mut params = String::from("<param name=\"gen\" expr=\"gen\"/>");
    if i.pass_x == 1 {
        params.push_str("<param name=\"x\" expr=\"x + 1\"/>");
    }
    if i.pass_undeclared == 2 {
        params.push_str("<param name=\"yy\" expr=\"'why'\"/>");
    }
    let fin = if i.finalize { format!("<finalize><assign location=\"fin\" expr=\"fin + 1\"/><assign location=\"seen_{t}\" expr=\"_event.data.k\"/><script>mark('finalize', '{t}', _event.name, _event.origin)</script></finalize>", t = i.tag) } else { String::new() };
    format!("<invoke {a}>{params}<content>{doc}</content>{fin}</invoke>", a = a, params = params, doc = child_doc(i, dm), fin = fin)
}

fn parent_doc(sc: &Scenario) -> String {
    let dm = if sc.ecma { "ecmascript" } else { "rfsm-expression" };
    let mut decl = String::new();
    let mut stops = String::new();
    let mut fin_handlers = String::new();
    for i in &sc.invs {
        if i.finalize {
            // the guard is true only when the finalize block of this event ran before the selection
            decl.push_str(&format!("<data id=\"seen_{}\" expr=\"0\"/>", i.tag));
            fin_handlers.push_str(&format!("<transition event=\"c.{t}\" cond=\"seen_{t} == _event.data.k\"><script>mark('cev', _event.name, _event.invokeid, _event.origin, _event.data.k, _event.data.gen, fin)</script></transition>\n<transition event=\"c.{t}\"><script>mark('unfinalized', _event.name, _event.data.k, seen_{t})</script></transition>\n", t = i.tag));
        }
        decl.push_str(&format!("<data id=\"id_{}\" expr=\"'{}'\"/>", i.tag, i.tag));
        stops.push_str(&format!("<send event=\"stop\" targetexpr=\"'#_' + id_{}\"/>", i.tag));
    }
    let flash_inv = Inv { tag: "f".into(), explicit_id: true, autoforward: false, kind: 3, k: 1, pass_x: 2, pass_undeclared: 0, finalize: false };
    let inv_a: String;
    let body_a: String;
    if sc.parallel {
        // A is a parallel: region A1 holds the first invoke, region A2 the others
        let first = invoke_xml(&sc.invs[0], dm);
        let rest: String = sc.invs.iter().skip(1).map(|i| invoke_xml(i, dm)).collect();
        inv_a = String::new();
        body_a = format!("<state id=\"A1\">{}</state><state id=\"A2\">{}</state>", first, rest);
    } else {
        inv_a = sc.invs.iter().map(|i| invoke_xml(i, dm)).collect();
        body_a = String::new();
    }
    let a_kind = if sc.parallel { "parallel" } else { "state" };
    let b_inv = Inv { tag: "b1".into(), explicit_id: true, autoforward: false, kind: 3, k: 3, pass_x: 2, pass_undeclared: 0, finalize: false };
    let (open_p, region_b) = if sc.with_b {
        (
            "<parallel id=\"P\">".to_string(),
            format!(
                "<state id=\"T\" initial=\"t0\"><state id=\"t0\"><transition event=\"enterB\" target=\"B\"/></state><state id=\"B\"><onentry><assign location=\"genb\" expr=\"genb + 1\"/><script>mark('B.entry', 'b' + genb)</script></onentry><onexit><script>mark('B.exit', 'b' + genb)</script></onexit>{}<transition event=\"leaveB\" target=\"t0\"/></state></state></parallel>",
                invoke_xml(&b_inv, dm).replace("<param name=\"gen\" expr=\"gen\"/>", "<param name=\"gen\" expr=\"'b' + genb\"/>")
            ),
        )
    } else {
        (String::new(), String::new())
    };
    format!(
        r##"<scxml xmlns="http://www.w3.org/2005/07/scxml" version="1.0" name="parent" datamodel="{dm}">
<datamodel><data id="x" expr="7"/><data id="yy" expr="'yy'"/><data id="fin" expr="0"/><data id="gen" expr="0"/><data id="genb" expr="0"/>{decl}</datamodel>
{open_p}<state id="S" initial="idle">
<transition event="h"><script>mark('hev', _event.name)</script></transition>
{fin_handlers}<transition event="c"><script>mark('cev', _event.name, _event.invokeid, _event.origin, _event.data.k, _event.data.gen, fin)</script></transition>
<transition event="done.invoke"><script>mark('done', _event.name, _event.invokeid, _event.origin)</script></transition>
<transition event="error"><script>mark('err', _event.name)</script></transition>
<transition event="stopkids">{stops}</transition>
<state id="idle">
<transition event="enterA" target="A"/>
<transition event="flash" target="F"/>
</state>
<state id="F">
<onentry><script>mark('F.entry')</script></onentry>
{flash}
<transition target="idle"/>
</state>
<{a_kind} id="A">
<onentry><assign location="gen" expr="gen + 1"/><script>mark('A.entry', gen)</script></onentry>
<onexit><script>mark('A.exit', gen)</script></onexit>
{inv_a}{body_a}
<transition event="leaveA" target="idle"/>
</{a_kind}>
</state>
{region_b}</scxml>"##,
        dm = dm,
        fin_handlers = fin_handlers,
        open_p = open_p,
        region_b = region_b,
        decl = decl,
        stops = stops,
        flash = invoke_xml(&flash_inv, dm),
        a_kind = a_kind,
        inv_a = inv_a,
        body_a = body_a
    )
}

fn session_threads() -> BTreeSet<String> {
    let mut out = BTreeSet::new();
    if let Ok(rd) = std::fs::read_dir("/proc/self/task") {
        for e in rd.flatten() {
            if let Ok(c) = std::fs::read_to_string(e.path().join("comm")) {
                let c = c.trim();
                if c.starts_with("fsm_") {
                    out.insert(c.to_string());
                }
            }
        }
    }
    out
}

fn origin_session(o: &str) -> Option<u32> {
    o.strip_prefix("#_scxml_")?.parse().ok()
}

impl Check for C14 {
    fn id(&self) -> &'static str {
        "C14"
    }
    fn rule(&self) -> String {
        "parent documents with an invoking state A (compound, or a parallel whose two regions invoke) holding 1-3 <invoke> with inline <content> children (explicit id or idlocation; autoforward 45 %; namelist / <param> for a declared child variable, for an undeclared name, or none; <finalize> that counts and marks), a state F with an invoke that is entered and left within one macrostep, 45 %: an independent invoking state B (never-ending child) in a sibling parallel region that is entered and left on its own, handlers that mark every child event (name, invokeid, origin, data, finalize counter), done.invoke and host event; children of 5 kinds: k events at once then final / k events 1 ms apart then final / events then wait for 'stop' / never end / with an invoked grandchild; ECMAScript 20 %; lock jitter 50 %. Host script of 4-17 steps: enter A, leave A, re-enter, enter / leave B, flash through F, host events h.N, stop request, pauses 0-8 ms. \
         Invariants on the merged mark log: (1) child starts per invoke == entries of A (each entry survives its macrostep), none for F's invoke; (2) declared child data carry the passed value, other declared data keep their default, reading the undeclared name fails in the child; (3) after A is exited every child (and grandchild) of that entry runs its onexit within 3 s; (4) parent-side marks of child events carry the invoke id (explicit or generated stateid.platformid); (5) with <finalize>: a transition guard reading what the finalize block stores for this event is true at selection time, the finalize mark of that invoke for that event directly precedes the transition's mark and the counter it increments is already visible there, never for host events or other invokes; (6) every host event the parent processes between the entry of A that started an autoforward child and the end of that child (done.invoke processed or A exited) is received exactly once by that child (judged when the child never left its handling state or handled a later forwarded event), never by a non-autoforward child; (7) a child that reached its final state while its entry of A was still active at the end produces exactly one processed done.invoke.<id>, all k events of that child are processed before it and none after; (3b) a child of B is not cancelled while B is active, whatever happens to A; (8) after the A.exit mark of an entry no event, finalize or done.invoke of the children of that entry is processed. \
         Non-trivial = a leave races with child events (child events sent after the exit), or an autoforwarded host event, or >= 2 simultaneous children; distinct = hash of the scenario."
            .into()
    }
    fn assumptions(&self) -> Vec<String> {
        vec![
            "parent/child thread interleavings are sampled (OS scheduler, generated pauses, optional lock jitter)".into(),
            "children are identified by the session id in _event.origin; entries of A by a generation counter passed as <param>".into(),
            "invoke with src (file) children is not generated: Fsm::invoke treats both forms alike after loading, the loader is covered by C04/C12".into(),
        ]
    }
    fn phases(&self, tier: Tier) -> Vec<Phase> {
        match tier {
            Tier::Quick => vec![Phase::random("invoke-scenarios", 4_000, 256).batch(20).watchdog(120_000)],
            Tier::Thorough => vec![Phase::random("invoke-scenarios", 60_000, 256).batch(20).watchdog(120_000)],
        }
    }
    fn max_workers(&self) -> usize {
        8
    }
    fn min_nontrivial_pct(&self) -> u32 {
        30
    }
    fn shrink_budget(&self, _tier: Tier) -> usize {
        100
    }
    fn run(&self, _phase: usize, tape: &[u8], want_sample: bool) -> CaseResult {
        let sc = decode(tape);
        let before = session_threads();
        rufsm::verif_sync::set_tracking(sc.jitter != 0);
        rufsm::verif_sync::set_jitter(sc.jitter);
        let mut scen = Scen::new();
        let xml = parent_doc(&sc);
        let hash = hash_str(&format!("{:?}", sc));
        let p = match scen.start(&xml, &[]) {
            Ok(i) => i,
            Err(e) => {
                rufsm::verif_sync::set_jitter(0);
                rufsm::verif_sync::set_tracking(false);
                return CaseResult::fail(hash, "reader-rejects-conformant-document", format!("{} :: {}", e, xml));
            }
        };
        let pid = scen.id(p);
        let mut in_a = false;
        let mut in_b = false;
        let mut b_entries = 0usize;
        let mut entries = 0usize;
        let mut flashes = 0usize;
        for op in &sc.ops {
            match op {
                Op::EnterA => {
                    if !in_a {
                        in_a = true;
                        entries += 1;
                        scen.send_name(p, "enterA");
                    }
                }
                Op::LeaveA => {
                    if in_a {
                        in_a = false;
                        scen.send_name(p, "leaveA");
                    }
                }
                Op::Flash => {
                    if !in_a {
                        flashes += 1;
                        scen.send_name(p, "flash");
                    }
                }
                Op::Host(n) => {
                    scen.send_name(p, &format!("h.{}", n));
                }
                Op::Stop => {
                    scen.send_name(p, "stopkids");
                }
                Op::EnterB => {
                    if !in_b {
                        in_b = true;
                        b_entries += 1;
                        scen.send_name(p, "enterB");
                    }
                }
                Op::LeaveB => {
                    if in_b {
                        in_b = false;
                        scen.send_name(p, "leaveB");
                    }
                }
                Op::SleepUs(us) => {
                    if *us == 0 {
                        std::thread::yield_now();
                    } else {
                        std::thread::sleep(Duration::from_micros(*us));
                    }
                }
            }
        }
        // quiescence: the log does not grow for 40 ms (children tick every ms at most k times)
        let mut last_len = 0;
        let mut stable_since = Instant::now();
        let t_end = Instant::now() + Duration::from_secs(5);
        loop {
            let l = scen.log.recs.lock().unwrap().len();
            if l != last_len {
                last_len = l;
                stable_since = Instant::now();
            }
            // every invoke of every entry (and every grandchild) has reported its start
            let expected_starts = entries * (sc.invs.len() + sc.invs.iter().filter(|i| i.kind == 4).count()) + b_entries;
            let all_entered = scen.log.count(pid, "A.entry") >= entries && scen.log.count(pid, "B.entry") >= b_entries && scen.log.count(pid, "F.entry") >= flashes && scen.log.recs.lock().unwrap().iter().filter(|m| m.tag == "kid.start").count() >= expected_starts;
            if (all_entered && stable_since.elapsed() > Duration::from_millis(40)) || Instant::now() > t_end {
                break;
            }
            std::thread::sleep(Duration::from_millis(1));
        }
        // ---- the oracle, evaluated on a snapshot of the merged log
        let t0 = scen.t0;
        let evaluate = |log: &Vec<MRec>| -> CaseResult {
            let ctx = || format!("{:?}\n--- parent document:\n{}\n--- marks:\n{}", sc, xml, log.iter().map(|m| format!("  {:>8.3} ms [{}] {} {:?}", (m.t - t0).as_secs_f64() * 1000.0, m.session, m.tag, m.args)).collect::<Vec<_>>().join("\n"));
            let exits_complete = {
                let gens: Vec<String> = log.iter().filter(|m| m.session == pid && (m.tag == "A.exit" || m.tag == "B.exit")).map(|m| m.args.first().cloned().unwrap_or_default()).collect();
                log.iter().filter(|m| m.tag == "kid.start" && gens.contains(&m.args.get(1).cloned().unwrap_or_default())).all(|s| log.iter().any(|e| e.tag == "kid.exit" && e.session == s.session))
            };
            let pm: Vec<&MRec> = log.iter().filter(|m| m.session == pid).collect();
            let arg = |m: &MRec, i: usize| m.args.get(i).cloned().unwrap_or_default();
            let n_entries = pm.iter().filter(|m| m.tag == "A.entry").count();
            if n_entries != entries {
                return CaseResult::error(format!("A entered {} times, script says {}", n_entries, entries));
            }
            // (1) starts
            let starts: Vec<&MRec> = log.iter().filter(|m| m.tag == "kid.start").collect();
            if let Some(s) = starts.iter().find(|m| arg(m, 0) == "f") {
                return CaseResult::fail(hash, "invoked-in-state-left-within-the-macrostep", format!("the invoke of state F (entered and exited in one macrostep) was started as session {} :: {}", s.session, ctx()));
            }
            for i in &sc.invs {
                for g in 1..=entries {
                    let n = starts.iter().filter(|m| arg(m, 0) == i.tag && arg(m, 1) == g.to_string()).count();
                    if n != 1 {
                        return CaseResult::fail(hash, if n == 0 { "invoke-not-started" } else { "invoke-started-twice" }, format!("invoke {} was started {} times for entry {} of A :: {}", i.tag, n, g, ctx()));
                    }
                }
                if i.kind == 4 {
                    for g in 1..=entries {
                        let n = starts.iter().filter(|m| arg(m, 0) == "g" && arg(m, 1) == g.to_string()).count();
                        let want = sc.invs.iter().filter(|j| j.kind == 4).count();
                        if n != want {
                            return CaseResult::fail(hash, "nested-invoke-count", format!("{} grandchildren started for entry {} of A, expected {} :: {}", n, g, want, ctx()));
                        }
                    }
                }
            }
            // (2) data
            for s in &starts {
                let Some(i) = sc.invs.iter().find(|i| i.tag == arg(s, 0)) else { continue };
                let want_x = match i.pass_x {
                    0 => "7",
                    1 => "8",
                    _ => "1",
                };
                if arg(s, 2) != want_x || arg(s, 3) != "3" {
                    return CaseResult::fail(hash, "child-data", format!("child {} (session {}): x reads {:?} (expected {}), z reads {:?} (expected 3) :: {}", i.tag, s.session, arg(s, 2), want_x, arg(s, 3), ctx()));
                }
            }
            // (an rfsm-expression script passes the evaluation error of an argument on as a value)
            if let Some(m) = log.iter().find(|m| m.tag == "kid.y" && !m.args.first().map(|a| a.starts_with("Error")).unwrap_or(false)) {
                return CaseResult::fail(hash, "undeclared-child-data-defined", format!("child session {} could read the undeclared name yy = {:?} :: {}", m.session, m.args, ctx()));
            }
            // instance table: child session -> (tag, gen)
            let mut inst: BTreeMap<u32, (String, String)> = BTreeMap::new();
            for s in &starts {
                inst.insert(s.session, (arg(s, 0), arg(s, 1)));
            }
            let exit_seq: BTreeMap<String, u64> = pm.iter().filter(|m| m.tag == "A.exit" || m.tag == "B.exit").map(|m| (arg(m, 0), m.seq)).collect();
            // (1b)/(3b) the independent invoking state B
            for g in 1..=b_entries {
                let gs = format!("b{}", g);
                let n = starts.iter().filter(|m| arg(m, 0) == "b1" && arg(m, 1) == gs).count();
                if n != 1 {
                    return CaseResult::fail(hash, if n == 0 { "invoke-not-started" } else { "invoke-started-twice" }, format!("invoke b1 was started {} times for entry {} of B :: {}", n, g, ctx()));
                }
            }
            for s in starts.iter().filter(|m| arg(m, 0) == "b1") {
                if !exit_seq.contains_key(&arg(s, 1)) {
                    if let Some(x) = log.iter().find(|e| e.tag == "kid.exit" && e.session == s.session) {
                        return CaseResult::fail(hash, "child-cancelled-although-its-state-is-active", format!("child b1 of entry {} of B (session {}) ran its onexit at {:.3} ms although B was not exited :: {}", arg(s, 1), s.session, (x.t - t0).as_secs_f64() * 1000.0, ctx()));
                    }
                }
            }
            // (3) cancel on exit
            if !exits_complete {
                for s in &starts {
                    if exit_seq.contains_key(&arg(s, 1)) && !log.iter().any(|e| e.tag == "kid.exit" && e.session == s.session) {
                        let reentered = arg(s, 1).parse::<usize>().map(|g| g < entries).unwrap_or(false) || arg(s, 1).strip_prefix('b').and_then(|g| g.parse::<usize>().ok()).map(|g| g < b_entries).unwrap_or(false);
                        let sig = if arg(s, 0) == "g" { "grandchild-not-cancelled" } else if reentered { "child-not-cancelled-on-exit:state-re-entered" } else { "child-not-cancelled-on-exit" };
                        return CaseResult::fail(hash, sig, format!("child {} of entry {} (session {}) did not run its onexit within 3 s after A was exited :: {}", arg(s, 0), arg(s, 1), s.session, ctx()));
                    }
                }
            }
            if let Some(m) = pm.iter().find(|m| m.tag == "unfinalized") {
                return CaseResult::fail(hash, "finalize-not-before-selection", format!("event {:?}: the guard that reads what <finalize> stores for this event was false when transitions were selected :: {}", m.args, ctx()));
            }
            // parent-side per-event checks
            let mut late_events = 0;
            for (idx, m) in pm.iter().enumerate() {
                if m.tag != "cev" && m.tag != "done" && m.tag != "finalize" {
                    continue;
                }
                let origin = match m.tag.as_str() {
                    "cev" => arg(m, 2),
                    "done" => arg(m, 2),
                    _ => arg(m, 2),
                };
                let Some(child) = origin_session(&origin) else {
                    return CaseResult::fail(hash, "child-event-origin", format!("parent mark {} {:?} has no usable origin :: {}", m.tag, m.args, ctx()));
                };
                let Some((tag, gen)) = inst.get(&child).cloned() else {
                    return CaseResult::fail(hash, "child-event-origin", format!("parent mark {} {:?} names session {} which is no known child :: {}", m.tag, m.args, child, ctx()));
                };
                let i = sc.invs.iter().find(|i| i.tag == tag);
                // (8) nothing after the exit of that entry
                if let Some(xs) = exit_seq.get(&gen) {
                    if m.seq > *xs {
                        let sig = format!("processed-after-cancel:{}", m.tag);
                        return CaseResult::fail(hash, &sig, format!("the parent processed {} {:?} of child {} (entry {}) after A.exit of that entry :: {}", m.tag, m.args, tag, gen, ctx()));
                    }
                }
                if m.tag == "cev" {
                    let Some(i) = i else { continue };
                    // (4) invokeid
                    let iid = arg(m, 1);
                    let ok = if i.explicit_id { iid == i.tag } else { (iid.starts_with("A.") || iid.starts_with("A1.") || iid.starts_with("A2.")) && iid.len() > 2 };
                    if !ok {
                        return CaseResult::fail(hash, "invokeid-of-child-event", format!("event {:?} of child {}: _event.invokeid is {:?} :: {}", m.args, tag, iid, ctx()));
                    }
                    if arg(m, 4) != gen {
                        return CaseResult::fail(hash, "child-event-data", format!("event {:?} of child {} entry {}: data.gen differs :: {}", m.args, tag, gen, ctx()));
                    }
                    // (5) finalize directly before, counter visible
                    if i.finalize {
                        let prev = if idx > 0 { Some(pm[idx - 1]) } else { None };
                        let ok = prev.map(|f| f.tag == "finalize" && arg(f, 0) == tag && arg(f, 1) == arg(m, 0) && arg(f, 2) == origin).unwrap_or(false);
                        if !ok {
                            return CaseResult::fail(hash, "finalize-not-run-before-transition", format!("event {:?} of child {}: the mark before it is {:?} :: {}", m.args, tag, prev.map(|f| (&f.tag, &f.args)), ctx()));
                        }
                        let fin_runs = pm.iter().take(idx).filter(|f| f.tag == "finalize").count();
                        if arg(m, 5) != fin_runs.to_string() {
                            return CaseResult::fail(hash, "finalize-effect-not-visible", format!("event {:?} of child {}: counter reads {} but finalize ran {} times :: {}", m.args, tag, arg(m, 5), fin_runs, ctx()));
                        }
                    }
                }
                if m.tag == "finalize" {
                    // must be followed by the cev / done mark of the same event
                    let next = pm.get(idx + 1);
                    let ok = next.map(|n| (n.tag == "cev" && arg(n, 0) == arg(m, 1) && arg(n, 2) == origin) || (n.tag == "done" && arg(n, 0) == arg(m, 1))).unwrap_or(false);
                    if !ok {
                        return CaseResult::fail(hash, "finalize-without-its-event", format!("finalize mark {:?} is followed by {:?} :: {}", m.args, next.map(|n| (&n.tag, &n.args)), ctx()));
                    }
                    if arg(m, 0) != tag {
                        return CaseResult::fail(hash, "finalize-of-other-invoke", format!("finalize of invoke {} ran for an event of child {} :: {}", arg(m, 0), tag, ctx()));
                    }
                }
            }
            // child events sent after the exit (the race that (8) is about)
            for m in log.iter().filter(|m| m.tag == "kid.tx") {
                if let Some((_, gen)) = inst.get(&m.session) {
                    if let Some(xs) = exit_seq.get(gen) {
                        if m.seq > *xs {
                            late_events += 1;
                        }
                    }
                }
            }
            // (7) done.invoke
            for (child, (tag, gen)) in &inst {
                let Some(i) = sc.invs.iter().find(|i| &i.tag == tag) else { continue };
                let finished = log.iter().find(|m| m.tag == "kid.final" && m.session == *child);
                let dones: Vec<&&MRec> = pm.iter().filter(|m| m.tag == "done" && origin_session(&arg(m, 2)) == Some(*child)).collect();
                if dones.len() > 1 {
                    return CaseResult::fail(hash, "done-invoke-twice", format!("child {} entry {}: {} done.invoke events processed :: {}", tag, gen, dones.len(), ctx()));
                }
                if let Some(d) = dones.first() {
                    let want_name_ok = if i.explicit_id { arg(d, 0) == format!("done.invoke.{}", i.tag) } else { arg(d, 0).starts_with("done.invoke.A") };
                    if !want_name_ok || arg(d, 1).is_empty() {
                        return CaseResult::fail(hash, "done-invoke-name", format!("child {}: done event {:?} :: {}", tag, d.args, ctx()));
                    }
                    if finished.is_none() {
                        return CaseResult::fail(hash, "done-invoke-without-final", format!("child {} entry {} never reached its final state but done.invoke was processed :: {}", tag, gen, ctx()));
                    }
                    let cevs: Vec<&&MRec> = pm.iter().filter(|m| m.tag == "cev" && origin_session(&arg(m, 2)) == Some(*child)).collect();
                    if cevs.iter().any(|c| c.seq > d.seq) {
                        return CaseResult::fail(hash, "child-event-after-done-invoke", format!("child {} entry {}: an event was processed after done.invoke :: {}", tag, gen, ctx()));
                    }
                    let fin_seq = finished.map(|f| f.seq).unwrap_or(u64::MAX);
                    let sent = log.iter().filter(|m| m.tag == "kid.tx" && m.session == *child && m.seq < fin_seq).count();
                    if cevs.len() != sent {
                        return CaseResult::fail(hash, "done-invoke-before-all-events", format!("child {} entry {} sent {} events before its final state, the parent processed {} before done.invoke :: {}", tag, gen, sent, cevs.len(), ctx()));
                    }
                } else if finished.is_some() && !exit_seq.contains_key(gen) {
                    return CaseResult::fail(hash, "done-invoke-missing", format!("child {} entry {} reached its final state, A was not exited, but no done.invoke was processed :: {}", tag, gen, ctx()));
                }
            }
            // (6) autoforward
            let mut forwarded = 0;
            for (child, (tag, gen)) in &inst {
                let Some(i) = sc.invs.iter().find(|i| &i.tag == tag) else { continue };
                let rx: Vec<String> = log.iter().filter(|m| m.tag == "kid.rx" && m.session == *child).map(|m| arg(m, 2)).collect();
                if !i.autoforward {
                    if !rx.is_empty() {
                        return CaseResult::fail(hash, "forwarded-without-autoforward", format!("child {} entry {} (no autoforward) received {:?} :: {}", tag, gen, rx, ctx()));
                    }
                    continue;
                }
                // window: after the entry of A that started the child, before done / exit of the entry
                // (all invokes of a macrostep are started before the next external event is dequeued)
                let first = pm.iter().find(|m| m.tag == "A.entry" && &arg(m, 0) == gen).map(|m| m.seq);
                let end = pm.iter().find(|m| (m.tag == "done" && origin_session(&arg(m, 2)) == Some(*child)) || (m.tag == "A.exit" && &arg(m, 0) == gen)).map(|m| m.seq).unwrap_or(u64::MAX);
                // the child must still be able to handle it: it has not left its run state before the parent's window ends
                let child_left = log.iter().find(|m| (m.tag == "kid.final" || m.tag == "kid.exit") && m.session == *child).map(|m| m.seq).unwrap_or(u64::MAX);
                let mut seen = BTreeSet::new();
                for r in &rx {
                    if !seen.insert(r.clone()) {
                        return CaseResult::fail(hash, "forwarded-twice", format!("child {} entry {} received {} twice :: {}", tag, gen, r, ctx()));
                    }
                }
                if let Some(first) = first {
                    let hevs: Vec<&&MRec> = pm.iter().filter(|m| m.tag == "hev" && m.seq > first && m.seq < end).collect();
                    for (hi, h) in hevs.iter().enumerate() {
                        // The child must have been in its handling state when the copy reached it: either it
                        // never left that state, or it handled a copy that was forwarded later (its queue is FIFO).
                        let name = arg(h, 0);
                        let later_handled = hevs.iter().skip(hi + 1).any(|l| rx.contains(&arg(l, 0)));
                        if child_left != u64::MAX && !later_handled {
                            continue;
                        }
                        forwarded += 1;
                        if !rx.contains(&name) {
                            return CaseResult::fail(hash, "host-event-not-forwarded", format!("child {} entry {} has autoforward but did not receive {} which the parent processed while the child was active :: {}", tag, gen, name, ctx()));
                        }
                    }
                }
            }
            let nontrivial = late_events > 0 || forwarded > 0 || sc.invs.len() >= 2;
            let mut r = CaseResult::pass(hash, nontrivial);
            r.evaluations = log.len() as u64;
            let mut cls: BTreeSet<String> = BTreeSet::new();
            if late_events > 0 {
                cls.insert("child_events_race_with_exit".into());
            }
            if forwarded > 0 {
                cls.insert("autoforwarded_host_event".into());
            }
            if entries >= 2 {
                cls.insert("state_re_entered".into());
            }
            if flashes > 0 {
                cls.insert("flash_state".into());
            }
            if sc.parallel {
                cls.insert("parallel_invoking_regions".into());
            }
            if sc.with_b {
                cls.insert("independent_invoking_state".into());
            }
            if sc.ecma {
                cls.insert("ecmascript".into());
            }
            if sc.jitter != 0 {
                cls.insert("lock_jitter".into());
            }
            if pm.iter().any(|m| m.tag == "done") {
                cls.insert("done_invoke_processed".into());
            }
            if pm.iter().any(|m| m.tag == "finalize") {
                cls.insert("finalize_ran".into());
            }
            for i in &sc.invs {
                cls.insert(format!("child_kind_{}", i.kind));
                if !i.explicit_id {
                    cls.insert("generated_invoke_id".into());
                }
            }
            cls.insert(format!("children_{}", sc.invs.len()));
            r.classes = cls.into_iter().collect();
            if want_sample {
                r.sample = Some(json!({"scenario": format!("{:?}", sc), "marks": log.iter().take(60).map(|m| format!("[{}] {} {:?}", m.session, m.tag, m.args)).collect::<Vec<_>>()}));
            }
            r
        };
        // obligations that need time (a child still starting, ending or handling a forwarded event)
        // are re-evaluated until nothing has happened for 3 s; things that must not happen are final at once
        const RETRY: [&str; 9] = ["invoke-not-started", "nested-invoke-count", "child-not-cancelled-on-exit", "child-not-cancelled-on-exit:state-re-entered", "grandchild-not-cancelled", "done-invoke-missing", "host-event-not-forwarded", "done-invoke-before-all-events", "finalize-without-its-event"];
        let mut idle_since = Instant::now();
        let mut last_len = 0usize;
        let started = Instant::now();
        let (result, snapshot_before_end) = loop {
            let log = scen.log.snapshot();
            if log.len() != last_len {
                last_len = log.len();
                idle_since = Instant::now();
            }
            let r = evaluate(&log);
            let retry = matches!(&r.verdict, crate::engine::Verdict::Fail { sig, .. } if RETRY.contains(&sig.as_str()));
            // give up when nothing has happened for 3 s (a loaded machine is slow, not silent)
            if retry && idle_since.elapsed() < Duration::from_secs(3) && started.elapsed() < Duration::from_secs(40) {
                std::thread::sleep(Duration::from_millis(50));
                continue;
            }
            break (r, log);
        };
        // end: cancel the parent; its children must end with it
        rufsm::verif_sync::set_jitter(0);
        scen.cancel_all();
        let (ended, panics) = scen.join_all_keep(Duration::from_secs(10));
        let deadline = Instant::now() + Duration::from_secs(5);
        let mut leftover: Vec<String>;
        loop {
            leftover = session_threads().difference(&before).cloned().collect();
            if leftover.is_empty() || Instant::now() > deadline {
                break;
            }
            std::thread::sleep(Duration::from_millis(2));
        }
        let mut leftover_info = String::new();
        if !leftover.is_empty() {
            // what are they doing, and what happened after the snapshot?
            if let Ok(rd) = std::fs::read_dir("/proc/self/task") {
                for e in rd.flatten() {
                    let comm = std::fs::read_to_string(e.path().join("comm")).unwrap_or_default();
                    if leftover.contains(&comm.trim().to_string()) {
                        leftover_info.push_str(&format!("\n  thread {} syscall {} wchan {}", comm.trim(), std::fs::read_to_string(e.path().join("syscall")).unwrap_or_default().trim(), std::fs::read_to_string(e.path().join("wchan")).unwrap_or_default().trim()));
                    }
                }
            }
            let n0 = snapshot_before_end.len();
            for m in scen.log.snapshot().iter().skip(n0) {
                leftover_info.push_str(&format!("\n  later: {:>8.3} ms [{}] {} {:?}", (m.t - scen.t0).as_secs_f64() * 1000.0, m.session, m.tag, m.args));
            }
            leftover_info.push_str(&format!("\n  sessions still registered with the executor: {:?}", scen.exec.state.lock().map(|st| st.sessions.keys().copied().collect::<Vec<_>>()).unwrap_or_default()));
            // do not leak the orphans into the next case
            let senders: Vec<_> = scen.exec.state.lock().map(|st| st.sessions.values().map(|s| s.sender.clone()).collect()).unwrap_or_default();
            for s in senders {
                let _ = s.send(Box::new(rufsm::fsm::Event::new_simple("error.platform.cancel")));
            }
            std::thread::sleep(Duration::from_millis(50));
        }
        if let Ok(mut st) = scen.exec.state.lock() {
            st.sessions.clear();
        }
        rufsm::verif_sync::set_tracking(false);
        let log = &snapshot_before_end;
        let ctx = || format!("{:?}\n--- parent document:\n{}\n--- marks:\n{}", sc, xml, log.iter().map(|m| format!("  {:>8.3} ms [{}] {} {:?}", (m.t - t0).as_secs_f64() * 1000.0, m.session, m.tag, m.args)).collect::<Vec<_>>().join("\n"));
        if !panics.is_empty() {
            return CaseResult::fail(hash, "session-thread-panicked", format!("{} :: {}", panics.join(" | "), ctx()));
        }
        if !ended {
            return CaseResult::fail(hash, "session-did-not-stop", format!("the parent did not end within 10 s after cancel :: {}", ctx()));
        }
        if !matches!(result.verdict, crate::engine::Verdict::Pass) {
            return result;
        }
        if !leftover.is_empty() {
            return CaseResult::fail(hash, "child-outlives-parent", format!("session threads {:?} were still alive 5 s after the parent ended{} :: {}", leftover, leftover_info, ctx()));
        }
        result
    }
}
