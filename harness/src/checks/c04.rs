//! C04 — the XML reader builds a model that mirrors the SCXML document.

use crate::astdump::dump_doc;
use crate::doc::*;
use crate::dump::{dump, Flavour};
use crate::engine::{hash_str, last_panic, verif_dir, CaseResult, Check, Phase, Tier};
use crate::fullgen::enrich;
use crate::render::{doc_to_tree, serialise, Lexical, Structural};
use crate::tape::Tape;
use serde_json::json;
use std::path::PathBuf;

pub struct C04;

pub struct Rendered {
    pub xml: String,
    pub includes: Vec<(String, String)>,
    pub kinds: Vec<&'static str>,
}

pub struct FullCase {
    pub doc: Doc,
    pub script: Option<String>,
    pub a: Rendered,
    pub b: Rendered,
    pub forward_refs: bool,
    pub nested: bool,
}

fn count_initials(doc: &Doc) -> usize {
    let mut n = 0;
    for_each_state(doc, &mut |s| {
        if !matches!(s.initial, Initial::Default) {
            n += 1;
        }
    });
    n
}

fn count_descriptors(doc: &Doc) -> usize {
    let mut n = 0;
    for_each_state(doc, &mut |s| {
        for t in &s.transitions {
            n += t.events.len();
        }
    });
    n
}

fn render_variant(doc: &Doc, script: &Option<String>, t: &mut Tape) -> Rendered {
    let ni = count_initials(doc);
    let nd = count_descriptors(doc);
    let mut st = Structural::default();
    let mut kinds: Vec<&'static str> = Vec::new();
    for _ in 0..ni {
        let f = t.chance(40);
        if f {
            kinds.push("initial_attribute_vs_element");
        }
        st.flip_initial.push(f);
    }
    for _ in 0..nd {
        // 0 as written, 1 '.', 2 '.*', 3.. repeated / mixed redundant suffixes
        let k = match t.below(8) {
            0..=2 => 0,
            3 => 1,
            4 => 2,
            5 => 3,
            6 => 4,
            _ => 5,
        } as u8;
        if k > 0 {
            kinds.push("descriptor_spelling");
        }
        if k > 2 {
            kinds.push("descriptor_repeated_suffix");
        }
        st.descriptor_spelling.push(k);
    }
    let tree = doc_to_tree(doc, &st, script);
    let mut lex = Lexical::from_tape(t);
    let xml = serialise(&tree, &mut lex);
    kinds.extend(lex.variation_kinds.iter().cloned());
    kinds.sort();
    kinds.dedup();
    Rendered { xml, includes: lex.includes, kinds }
}

pub fn gen_full_case(tape: &[u8]) -> FullCase {
    let mut t = Tape::new(tape);
    let mut p = Profile::structure();
    p.dm_weights = [10, 60, 30];
    p.pct_final = 15;
    let mut doc = gen_doc(&mut t, &p);
    let script = enrich(&mut doc, &mut t);
    // forward references: a transition / initial target declared later in the document
    let flat = flatten(&doc);
    let pos = |id: &str| flat.iter().position(|f| f.id == id).unwrap_or(0);
    let mut forward = false;
    let mut nested = false;
    fn has_nested(b: &[C], depth: usize) -> bool {
        b.iter().any(|c| match c {
            C::If { branches, els } => branches.len() > 1 || depth > 0 || branches.iter().any(|(_, b)| has_nested(b, depth + 1)) || els.as_ref().map(|b| has_nested(b, depth + 1)).unwrap_or(false),
            C::ForEach { body, .. } => {
                let _ = body;
                true
            }
            _ => false,
        })
    }
    for_each_state(&doc, &mut |s| {
        let me = pos(&s.id);
        for tr in &s.transitions {
            if tr.targets.iter().any(|x| pos(x) > me) {
                forward = true;
            }
            nested |= has_nested(&tr.content, 0);
        }
        for b in s.onentry.iter().chain(s.onexit.iter()) {
            nested |= has_nested(b, 0);
        }
    });
    let a = render_variant(&doc, &script, &mut t);
    let b = render_variant(&doc, &script, &mut t);
    FullCase { doc, script, a, b, forward_refs: forward, nested }
}

/// Parses a rendering (writing its XInclude fragments to a scratch directory first).
pub fn parse_rendered(r: &Rendered, tag: &str) -> Result<Box<rufsm::fsm::Fsm>, String> {
    let mut paths: Vec<PathBuf> = Vec::new();
    if !r.includes.is_empty() {
        let dir = PathBuf::from(format!("{}/work/inc/{}_{}", verif_dir(), std::process::id(), tag));
        let _ = std::fs::create_dir_all(&dir);
        for (name, content) in &r.includes {
            std::fs::write(dir.join(name), content).map_err(|e| e.to_string())?;
        }
        paths.push(dir);
    }
    let xml = r.xml.clone();
    let res = std::panic::catch_unwind(move || rufsm::scxml_reader::parse_from_xml_with_includes(xml, &paths));
    match res {
        Ok(r) => r,
        Err(_) => Err(format!("reader panicked: {}", last_panic())),
    }
}

pub fn first_diff(a: &str, b: &str) -> String {
    let la: Vec<&str> = a.lines().collect();
    let lb: Vec<&str> = b.lines().collect();
    for i in 0..la.len().max(lb.len()) {
        if la.get(i) != lb.get(i) {
            let ctx: Vec<String> = la[i.saturating_sub(3)..i].iter().map(|s| format!("      {}", s)).collect();
            return format!("line {}:\n{}\n  expected: {}\n  observed: {}", i, ctx.join("\n"), la.get(i).unwrap_or(&"<end>"), lb.get(i).unwrap_or(&"<end>"));
        }
    }
    "no difference".into()
}

fn classify(expected: &str, got: &str) -> String {
    let la: Vec<&str> = expected.lines().collect();
    let lb: Vec<&str> = got.lines().collect();
    for i in 0..la.len().max(lb.len()) {
        if la.get(i) != lb.get(i) {
            let w = |l: Option<&&str>| l.map(|s| s.trim().split(|c: char| c == ' ' || c == '[' || c == ':').next().unwrap_or("").to_string()).unwrap_or_else(|| "end".into());
            return format!("dump:{}-vs-{}", w(la.get(i)), w(lb.get(i)));
        }
    }
    "dump:none".into()
}

impl Check for C04 {
    fn id(&self) -> &'static str {
        "C04"
    }
    fn rule(&self) -> String {
        "full-grammar documents (states/parallel/final/history, all transition forms, onentry/onexit/initial/finalize bodies with nested if/elseif/else, foreach, assign (attribute and child text), raise, log, script, send with every attribute, param, content, cancel, data (expr and child text), donedata, invoke) \
         with opaque expression texts that need escaping (<, >, &, quotes, non-ASCII), each rendered twice with independent lexical choices (whitespace, comments, quote style, attribute order, character/entity references, CDATA, namespace prefix, start/end tag for empty elements, initial attribute vs <initial>, descriptor spelling e / e. / e.* / e.. / e.*. / e..*, XInclude of text fragments). \
         Oracle: (a) by-name dump of the parsed model == dump computed from the AST, (b) the two renderings give equal dumps, (c) parsing is deterministic, no reader panic. \
         Non-trivial = the two renderings together use >= 3 lexical variation kinds and the document has a forward reference or a nested if/elseif/else or foreach; distinct = hash of both texts."
            .into()
    }
    fn assumptions(&self) -> Vec<String> {
        vec![
            "dump format: harness/src/dump.rs (model side) and harness/src/astdump.rs (document side)".into(),
            "generated ids of states without id, transition/content ids, document ids and source ids are not part of 'mirrors the document'".into(),
        ]
    }
    fn phases(&self, tier: Tier) -> Vec<Phase> {
        match tier {
            Tier::Quick => vec![Phase::random("full-grammar", 25_000, 4096).batch(100).watchdog(30_000)],
            Tier::Thorough => vec![Phase::random("full-grammar", 400_000, 4096).batch(200).watchdog(30_000)],
        }
    }
    fn describe(&self, _phase: usize, tape: &[u8]) -> String {
        let c = gen_full_case(tape);
        format!("--- rendering A ---\n{}\n--- rendering B ---\n{}", c.a.xml, c.b.xml)
    }
    fn run(&self, _phase: usize, tape: &[u8], want_sample: bool) -> CaseResult {
        let c = gen_full_case(tape);
        let hash = hash_str(&format!("{}|{}", c.a.xml, c.b.xml));
        let expected = dump_doc(&c.doc, &c.script);
        let show = |r: &Rendered| {
            let mut s = r.xml.clone();
            for (n, f) in &r.includes {
                s.push_str(&format!("\n--- {} ---\n{}", n, f));
            }
            s
        };
        let ma = match parse_rendered(&c.a, "a") {
            Ok(m) => m,
            Err(e) => return CaseResult::fail(hash, "reader-rejects-or-panics", format!("{}\n{}", e, show(&c.a))),
        };
        let da = dump(&ma, Flavour::ByName);
        if da != expected {
            return CaseResult::fail(hash, &classify(&expected, &da), format!("model differs from document at {}\n{}", first_diff(&expected, &da), show(&c.a)));
        }
        let mb = match parse_rendered(&c.b, "b") {
            Ok(m) => m,
            Err(e) => return CaseResult::fail(hash, "reader-rejects-or-panics", format!("{}\n{}", e, show(&c.b))),
        };
        let db = dump(&mb, Flavour::ByName);
        if db != da {
            return CaseResult::fail(hash, &format!("lexical-variation:{}", classify(&da, &db)), format!("two renderings of one document give different models at {}\n--- A ---\n{}\n--- B ---\n{}", first_diff(&da, &db), show(&c.a), show(&c.b)));
        }
        // determinism of the parse
        let ma2 = match parse_rendered(&c.a, "a") {
            Ok(m) => m,
            Err(e) => return CaseResult::fail(hash, "reader-nondeterministic", e),
        };
        if dump(&ma2, Flavour::ByName) != da {
            return CaseResult::fail(hash, "reader-nondeterministic", "second parse of the same text gives a different model".into());
        }
        let mut kinds: Vec<&str> = c.a.kinds.iter().chain(c.b.kinds.iter()).cloned().collect();
        kinds.sort();
        kinds.dedup();
        let mut r = CaseResult::pass(hash, kinds.len() >= 3 && (c.forward_refs || c.nested));
        for k in &kinds {
            r.classes.push(format!("lex_{}", k));
        }
        if c.forward_refs {
            r.classes.push("forward_reference".into());
        }
        if c.nested {
            r.classes.push("nested_if_or_foreach".into());
        }
        r.classes.push(format!("dm_{}", c.doc.dm.name()));
        if want_sample {
            r.sample = Some(json!({"rendering_a": c.a.xml, "rendering_b": c.b.xml, "variation_kinds": kinds, "model_dump_head": da.lines().take(25).collect::<Vec<_>>()}));
        }
        r
    }
}
