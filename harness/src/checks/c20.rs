//! C20 — the BasicHTTP processor turns each valid POST into exactly one event.
//!
//! One executor with the BasicHTTP processor per worker process (the processor binds the fixed
//! port 5555, so there is one worker and a lock file); per case two fresh sessions.  Requests are
//! written by a raw TCP client with its own percent-encoder.

use crate::engine::{hash_str, CaseResult, Check, Phase, Tier};
use crate::scen::*;
use crate::tape::Tape;
use rufsm::datamodel::Data;
use rufsm::fsm::{Event, ParamPair};
use rufsm::fsm_executor::FsmExecutor;
use serde_json::json;
use std::io::{Read, Write};
use std::sync::{Arc, Barrier, Mutex, OnceLock};
use std::time::Duration;

pub struct C20;

struct Server {
    exec: Option<FsmExecutor>,
    error: String,
    _rt: Option<tokio::runtime::Runtime>,
    _lock: Option<std::fs::File>,
}

static SERVER: OnceLock<Mutex<Server>> = OnceLock::new();

fn server() -> &'static Mutex<Server> {
    SERVER.get_or_init(|| {
        // one C20 worker at a time on this machine: the port is fixed
        let lock_path = std::path::Path::new(&std::env::var("VERIF_DIR").unwrap_or_else(|_| "/verif".into())).join("work").join("c20.port5555.lock");
        let _ = std::fs::create_dir_all(lock_path.parent().unwrap());
        let lock = std::fs::OpenOptions::new().create(true).write(true).truncate(false).open(&lock_path).ok();
        if let Some(f) = &lock {
            use std::os::fd::AsRawFd;
            let t0 = std::time::Instant::now();
            loop {
                let r = unsafe { libc::flock(f.as_raw_fd(), libc::LOCK_EX | libc::LOCK_NB) };
                if r == 0 {
                    break;
                }
                if t0.elapsed() > Duration::from_secs(600) {
                    return Mutex::new(Server { exec: None, error: "another C20 worker holds the port lock for more than 10 minutes".into(), _rt: None, _lock: None });
                }
                std::thread::sleep(Duration::from_millis(200));
            }
        }
        if std::net::TcpStream::connect_timeout(&"127.0.0.1:5555".parse().unwrap(), Duration::from_millis(300)).is_ok() {
            return Mutex::new(Server { exec: None, error: "TCP port 5555 is in use by another process".into(), _rt: None, _lock: lock });
        }
        let rt = match tokio::runtime::Builder::new_multi_thread().worker_threads(3).enable_all().build() {
            Ok(rt) => rt,
            Err(e) => return Mutex::new(Server { exec: None, error: format!("tokio runtime: {}", e), _rt: None, _lock: lock }),
        };
        let r = std::panic::catch_unwind(std::panic::AssertUnwindSafe(|| rt.block_on(FsmExecutor::new_with_io_processor())));
        match r {
            Ok(exec) => {
                exec.state.lock().unwrap().datamodel_options.insert("ecma:strict".to_string(), String::new());
                // wait until the server accepts connections
                let t0 = std::time::Instant::now();
                while std::net::TcpStream::connect_timeout(&"127.0.0.1:5555".parse().unwrap(), Duration::from_millis(200)).is_err() && t0.elapsed() < Duration::from_secs(10) {
                    std::thread::sleep(Duration::from_millis(20));
                }
                Mutex::new(Server { exec: Some(exec), error: String::new(), _rt: Some(rt), _lock: lock })
            }
            Err(_) => Mutex::new(Server { exec: None, error: format!("the HTTP server did not start: {}", crate::engine::last_panic()), _rt: Some(rt), _lock: lock }),
        }
    })
}

const ALPHABET: [&str; 22] = ["a", "B", "k", "X", "7", "0", " ", "&", "=", "+", "%", "#", "?", "/", "\u{e9}", "\u{65e5}", "\n", "\"", "<", "'", ";", "~"];

fn gen_text(t: &mut Tape, min: usize, max: usize, extra: &[&str]) -> String {
    let n = min + t.below(max - min + 1);
    let mut s = String::new();
    for _ in 0..n {
        if !extra.is_empty() && t.chance(8) {
            s.push_str(extra[t.below(extra.len())]);
        } else if t.chance(55) {
            s.push_str(ALPHABET[t.below(6)]);
        } else {
            s.push_str(ALPHABET[t.below(ALPHABET.len())]);
        }
    }
    s
}

/// application/x-www-form-urlencoded with generated spelling choices
fn encode(t: &mut Tape, s: &str) -> String {
    let mut out = String::new();
    for b in s.as_bytes() {
        let c = *b as char;
        if c.is_ascii_alphanumeric() || (matches!(c, '-' | '_' | '.' | '~') && !t.chance(20)) {
            if c.is_ascii_alphanumeric() && t.chance(3) {
                out.push_str(&format!("%{:02X}", b));
            } else {
                out.push(c);
            }
        } else if c == ' ' && t.bool() {
            out.push('+');
        } else if t.bool() {
            out.push_str(&format!("%{:02X}", b));
        } else {
            out.push_str(&format!("%{:02x}", b));
        }
    }
    out
}

#[derive(Clone, Debug)]
enum Req {
    /// valid post: fields (name, value), or content only
    Fields { name: String, fields: Vec<(String, String)> },
    Content { name: String, content: String },
    NameOnly { name: String },
    UnknownSession { name: String },
    MissingName { fields: Vec<(String, String)> },
    NotANumber { name: String },
    /// sent by session A through <send type=basichttp>
    FromSession { name: String, v1: String, v2: i64, long_type: bool },
}

#[derive(Debug)]
struct Scenario {
    reqs: Vec<(Req, String)>, // request, encoded body (for posts)
    posters: usize,
    ecma_receiver: bool,
}

fn decode(tape: &[u8]) -> Scenario {
    let mut t = Tape::new(tape);
    let ecma_receiver = t.chance(70);
    let n = 1 + t.below(10);
    let mut reqs = Vec::new();
    for i in 0..n {
        // unique, odd event names; names must not be empty
        let mut name = format!("e{}", i);
        name.push_str(&gen_text(&mut t, 0, 6, &[".", ".x", "done.", "error."]));
        let gen_fields = |t: &mut Tape, simple_names: bool| -> Vec<(String, String)> {
            let k = 1 + t.below(3);
            let mut v: Vec<(String, String)> = Vec::new();
            for j in 0..k {
                let fname = if simple_names { format!("k{}", j + 1) } else { format!("f{}{}", j, gen_text(t, 0, 4, &[".", "[", "]", "_"])) };
                let val = gen_text(t, 0, 8, &[]);
                v.push((fname, val));
            }
            v
        };
        let simple = !ecma_receiver;
        let req = match t.below(12) {
            0..=3 => Req::Fields { name, fields: gen_fields(&mut t, simple) },
            4 => Req::Content { name, content: gen_text(&mut t, 0, 10, &[]) },
            5 => Req::NameOnly { name },
            6 => Req::UnknownSession { name },
            7 => Req::MissingName { fields: gen_fields(&mut t, simple) },
            8 => Req::NotANumber { name },
            _ => Req::FromSession { name, v1: gen_text(&mut t, 0, 8, &[]), v2: t.range(-1000, 100000), long_type: t.bool() },
        };
        let body = match &req {
            Req::Fields { name, fields } => {
                let mut parts: Vec<String> = fields.iter().map(|(k, v)| format!("{}={}", encode(&mut t, k), encode(&mut t, v))).collect();
                let pos = t.below(parts.len() + 1);
                parts.insert(pos, format!("_scxmleventname={}", encode(&mut t, name)));
                parts.join("&")
            }
            Req::Content { name, content } => {
                if t.bool() {
                    format!("_scxmleventname={}&_content={}", encode(&mut t, name), encode(&mut t, content))
                } else {
                    format!("_content={}&_scxmleventname={}", encode(&mut t, content), encode(&mut t, name))
                }
            }
            Req::NameOnly { name } | Req::UnknownSession { name } | Req::NotANumber { name } => format!("_scxmleventname={}", encode(&mut t, name)),
            Req::MissingName { fields } => fields.iter().map(|(k, v)| format!("{}={}", encode(&mut t, k), encode(&mut t, v))).collect::<Vec<_>>().join("&"),
            Req::FromSession { .. } => String::new(),
        };
        // empty pairs are not fields: '&' at the start, at the end or doubled
        let body = if !body.is_empty() && !matches!(req, Req::MissingName { .. }) && t.chance(15) {
            match t.below(3) {
                0 => format!("{}&", body),
                1 => format!("&{}", body),
                _ => body.replacen('&', "&&", 1),
            }
        } else {
            body
        };
        reqs.push((req, body));
    }
    Scenario { reqs, posters: 1 + t.below(8), ecma_receiver }
}

fn post(path: &str, body: &str) -> Result<u16, String> {
    let mut s = std::net::TcpStream::connect_timeout(&"127.0.0.1:5555".parse().unwrap(), Duration::from_secs(5)).map_err(|e| format!("connect: {}", e))?;
    let _ = s.set_read_timeout(Some(Duration::from_secs(10)));
    let _ = s.set_write_timeout(Some(Duration::from_secs(10)));
    let req = format!("POST {} HTTP/1.1\r\nHost: localhost:5555\r\nContent-Type: application/x-www-form-urlencoded\r\nContent-Length: {}\r\nConnection: close\r\n\r\n{}", path, body.len(), body);
    s.write_all(req.as_bytes()).map_err(|e| format!("write: {}", e))?;
    let mut buf = Vec::new();
    let _ = s.read_to_end(&mut buf);
    let text = String::from_utf8_lossy(&buf);
    let status = text.split_whitespace().nth(1).and_then(|x| x.parse::<u16>().ok());
    status.ok_or_else(|| format!("no status line in {:?}", text.chars().take(80).collect::<String>()))
}

const ECMA_RECEIVER: &str = r##"<scxml xmlns="http://www.w3.org/2005/07/scxml" version="1.0" name="rx" datamodel="ecmascript" initial="s">
  <state id="s">
    <onentry><script>mark('loc', _ioprocessors['basichttp'].location, _ioprocessors['http://www.w3.org/TR/scxml/#BasicHTTPEventProcessor'].location)</script></onentry>
    <transition event="*"><script><![CDATA[
      var d = _event.data;
      var shape;
      if (d === undefined || d === null) { shape = 'N'; }
      else if (typeof d === 'string') { shape = 'S:' + d; }
      else if (typeof d === 'object') { shape = 'M:' + JSON.stringify(Object.keys(d).sort().map(function(k) { return [k, d[k]]; })); }
      else { shape = 'O:' + String(d); }
      mark('rx', _event.name, shape);
    ]]></script></transition>
  </state>
</scxml>"##;

const RFSM_RECEIVER: &str = r##"<scxml xmlns="http://www.w3.org/2005/07/scxml" version="1.0" name="rx" datamodel="rfsm-expression" initial="s">
  <state id="s">
    <onentry><script>mark('loc', _ioprocessors['basichttp'].location, _ioprocessors['http://www.w3.org/TR/scxml/#BasicHTTPEventProcessor'].location)</script></onentry>
    <transition event="*"><script>mark('rx', _event.name, _event.data, _event.data.k1, _event.data.k2, _event.data.k3, _event.data.p1, _event.data.p2)</script></transition>
  </state>
</scxml>"##;

const SENDER: &str = r##"<scxml xmlns="http://www.w3.org/2005/07/scxml" version="1.0" name="tx" datamodel="rfsm-expression" initial="s">
  <state id="s">
    <transition event="go.short"><send typeexpr="'basichttp'" targetexpr="_event.data.loc" eventexpr="_event.data.n"><param name="p1" expr="_event.data.v1"/><param name="p2" expr="_event.data.v2"/></send><script>mark('sent', _event.data.n)</script></transition>
    <transition event="go.long"><send type="http://www.w3.org/TR/scxml/#BasicHTTPEventProcessor" targetexpr="_event.data.loc" eventexpr="_event.data.n"><param name="p1" expr="_event.data.v1"/><param name="p2" expr="_event.data.v2"/></send><script>mark('sent', _event.data.n)</script></transition>
    <transition event="error"><script>mark('err', _event.name)</script></transition>
  </state>
</scxml>"##;

impl Check for C20 {
    fn id(&self) -> &'static str {
        "C20"
    }
    fn rule(&self) -> String {
        "per case 1-10 requests against a fresh receiver session (ECMAScript 70 % / rfsm-expression) on an executor with the BasicHTTP processor (127.0.0.1:5555), issued by 1-8 concurrent posters released by a barrier: valid POSTs with 1-3 extra fields / only _content / only the event name; POSTs to an unknown session id, without _scxmleventname, with a non-numeric session path; and events sent by a second session with <send type='basichttp' | the full URI> to the location the receiver reads from _ioprocessors (a string and an integer parameter). Event names, field names and values are drawn from an alphabet with space & = + % # ? / é 日 newline quotes < ; ~ and dots/brackets in names; bodies are written by the harness' own percent-encoder with generated spelling choices ('+' or %20, upper/lower hex, needlessly encoded letters, empty pairs '&&' / leading / trailing '&'); requests go over a raw TCP socket. \
         Oracle: valid POST -> status 2xx and exactly one event with that name processed before the sentinel, whose _event.data holds exactly the other fields (ECMAScript: sorted key/value list as JSON; rfsm-expression: fixed keys k1..k3) or the _content value, or nothing; invalid request -> status >= 400 and no event; session send -> exactly one event with that name and the textual form of both parameters; the valid POSTs of one poster (which waits for each response) are processed in the order they were posted. \
         Non-trivial = a name, field name or value needed percent-encoding, or >= 2 concurrent posters; distinct = hash of the request list."
            .into()
    }
    fn assumptions(&self) -> Vec<String> {
        vec!["loopback only; one worker (fixed port 5555, lock file /verif/work/c20.port5555.lock); a busy port makes the run inconclusive (exit 2)".into(), "_event.raw is documented as unsupported and not checked; a request carrying _content together with other fields is not generated (the property does not say which wins)".into()]
    }
    fn phases(&self, tier: Tier) -> Vec<Phase> {
        match tier {
            Tier::Quick => vec![Phase::random("http-requests", 3_000, 512).batch(50).watchdog(120_000)],
            Tier::Thorough => vec![Phase::random("http-requests", 40_000, 512).batch(50).watchdog(120_000)],
        }
    }
    fn max_workers(&self) -> usize {
        1
    }
    fn min_nontrivial_pct(&self) -> u32 {
        40
    }
    fn shrink_budget(&self, _tier: Tier) -> usize {
        150
    }
    fn run(&self, _phase: usize, tape: &[u8], want_sample: bool) -> CaseResult {
        let sc = decode(tape);
        let exec = {
            let s = server().lock().unwrap();
            match &s.exec {
                Some(e) => e.clone(),
                None => return CaseResult::error(s.error.clone()),
            }
        };
        rufsm::verif_sync::set_tracking(false);
        let mut scen = Scen::with_executor(exec);
        let hash = hash_str(&format!("{:?}", sc));
        let rx = match scen.start(if sc.ecma_receiver { ECMA_RECEIVER } else { RFSM_RECEIVER }, &[]) {
            Ok(i) => i,
            Err(e) => return CaseResult::error(e),
        };
        let tx = match scen.start(SENDER, &[]) {
            Ok(i) => i,
            Err(e) => return CaseResult::error(e),
        };
        let rx_id = scen.id(rx);
        let finish = |scen: &mut Scen| {
            scen.cancel_all();
            scen.join_all_keep(Duration::from_secs(10))
        };
        if !scen.wait_until(Duration::from_secs(10), |l| l.count(rx_id, "loc") >= 1) {
            finish(&mut scen);
            return CaseResult::fail(hash, "ioprocessors-location-missing", "the receiver could not read the basichttp location from _ioprocessors within 10 s".into());
        }
        let loc = scen.log.of(rx_id).iter().find(|m| m.tag == "loc").map(|m| m.args.clone()).unwrap_or_default();
        if loc.len() != 2 || loc[0] != loc[1] || !loc[0].ends_with(&format!("/scxml/{}", rx_id)) {
            finish(&mut scen);
            return CaseResult::fail(hash, "ioprocessors-location", format!("locations published for session {}: {:?}", rx_id, loc));
        }
        // ---- issue the requests from concurrent posters
        let n = sc.reqs.len();
        let results: Arc<Mutex<Vec<Option<Result<u16, String>>>>> = Arc::new(Mutex::new(vec![None; n]));
        let posters = sc.posters.min(n).max(1);
        let barrier = Arc::new(Barrier::new(posters));
        let mut handles = Vec::new();
        for p in 0..posters {
            let mine: Vec<(usize, Req, String)> = sc.reqs.iter().enumerate().filter(|(i, _)| i % posters == p).map(|(i, (r, b))| (i, r.clone(), b.clone())).collect();
            let (results, barrier, loc0) = (results.clone(), barrier.clone(), loc[0].clone());
            let tx_sender = scen.sessions[tx].sender.clone();
            handles.push(std::thread::spawn(move || {
                barrier.wait();
                for (i, r, body) in mine {
                    let res = match &r {
                        Req::Fields { .. } | Req::Content { .. } | Req::NameOnly { .. } | Req::MissingName { .. } => post(&format!("/scxml/{}", rx_id), &body),
                        Req::UnknownSession { .. } => post("/scxml/4000000000", &body),
                        Req::NotANumber { .. } => post("/scxml/abc", &body),
                        Req::FromSession { name, v1, v2, long_type } => {
                            let mut e = Event::new_simple(if *long_type { "go.long" } else { "go.short" });
                            e.param_values = Some(vec![ParamPair::new("loc", &Data::String(loc0.clone())), ParamPair::new("n", &Data::String(name.clone())), ParamPair::new("v1", &Data::String(v1.clone())), ParamPair::new("v2", &Data::Integer(*v2))]);
                            let _ = tx_sender.send(Box::new(e));
                            Ok(0)
                        }
                    };
                    results.lock().unwrap()[i] = Some(res);
                }
            }));
        }
        for h in handles {
            let _ = h.join();
        }
        // session sends are synchronous inside the sender's macrostep: wait for its 'sent' marks
        let n_from = sc.reqs.iter().filter(|(r, _)| matches!(r, Req::FromSession { .. })).count();
        let tx_id = scen.id(tx);
        let sent_ok = scen.wait_progress(Duration::from_secs(20), |l| l.count(tx_id, "sent") >= n_from);
        // sentinel
        scen.send_name(rx, "zz.sentinel");
        let got_sentinel = scen.wait_progress(Duration::from_secs(10), |l| l.recs.lock().unwrap().iter().any(|m| m.session == rx_id && m.tag == "rx" && m.args.first().map(|a| a == "zz.sentinel").unwrap_or(false)));
        let (ended, panics) = finish(&mut scen);
        {
            let mut st = scen.exec.state.lock().unwrap();
            st.sessions.remove(&rx_id);
            st.sessions.remove(&tx_id);
        }
        let log = scen.log.snapshot();
        let results = results.lock().unwrap().clone();
        let ctx = || format!("receiver {} ({}); requests {:?}; results {:?}; receiver marks {:?}", rx_id, if sc.ecma_receiver { "ecmascript" } else { "rfsm-expression" }, sc.reqs, results, log.iter().filter(|m| m.session == rx_id && m.tag == "rx").map(|m| m.args.clone()).collect::<Vec<_>>());
        if !panics.is_empty() {
            return CaseResult::fail(hash, "session-thread-panicked", format!("{} :: {}", panics.join(" | "), ctx()));
        }
        if !sent_ok {
            let errs: Vec<_> = log.iter().filter(|m| m.tag == "err").map(|m| m.args.clone()).collect();
            return CaseResult::fail(hash, "session-send-not-executed", format!("the sending session executed {} of {} sends within 20 s (error events {:?}) :: {}", log.iter().filter(|m| m.session == tx_id && m.tag == "sent").count(), n_from, errs, ctx()));
        }
        if !got_sentinel {
            return CaseResult::fail(hash, "receiver-stuck", format!("the receiver did not process the sentinel within 10 s :: {}", ctx()));
        }
        let rxs: Vec<&MRec> = log.iter().filter(|m| m.session == rx_id && m.tag == "rx" && m.args.first().map(|a| a != "zz.sentinel").unwrap_or(true)).collect();
        let mut expected_names: Vec<String> = Vec::new();
        let mut needs_encoding = false;
        let plain = |s: &str| s.bytes().all(|b| b.is_ascii_alphanumeric());
        for (i, (r, _)) in sc.reqs.iter().enumerate() {
            let res = results[i].clone().unwrap_or(Err("not issued".into()));
            let status = match res {
                Ok(s) => s,
                Err(e) => return CaseResult::error(format!("request {} could not be issued: {} :: {}", i, e, ctx())),
            };
            let events_named = |n: &str| -> Vec<&&MRec> { rxs.iter().filter(|m| m.args.first().map(|a| a == n).unwrap_or(false)).collect() };
            match r {
                Req::Fields { name, .. } | Req::Content { name, .. } | Req::NameOnly { name } => {
                    if !plain(name) {
                        needs_encoding = true;
                    }
                    expected_names.push(name.clone());
                    if !(200..300).contains(&status) {
                        let sig = match r {
                            Req::Fields { fields, .. } if fields.iter().any(|(k, _)| k.contains('.') || k.contains('[') || k.contains(']')) => "valid-post-rejected:field-name-with-dot-or-bracket",
                            _ => "valid-post-rejected",
                        };
                        return CaseResult::fail(hash, sig, format!("request {} {:?} answered with status {} :: {}", i, r, status, ctx()));
                    }
                    let evs = events_named(name);
                    if evs.len() != 1 {
                        return CaseResult::fail(hash, if evs.is_empty() { "posted-event-missing" } else { "posted-event-twice" }, format!("request {} {:?}: {} events with that name were processed :: {}", i, r, evs.len(), ctx()));
                    }
                    let m = evs[0];
                    let shape = m.args.get(1).cloned().unwrap_or_default();
                    match r {
                        Req::Fields { fields, .. } => {
                            if fields.iter().any(|(k, v)| !plain(k) || !plain(v)) {
                                needs_encoding = true;
                            }
                            if sc.ecma_receiver {
                                let mut f = fields.clone();
                                f.sort();
                                let want = format!("M:{}", serde_json::to_string(&f.iter().map(|(k, v)| vec![k.clone(), v.clone()]).collect::<Vec<_>>()).unwrap());
                                if shape != want {
                                    let sig = if fields.iter().any(|(k, _)| k.contains('.') || k.contains('[') || k.contains(']')) { "data-differs:field-name-with-dot-or-bracket" } else { "data-differs" };
                                    return CaseResult::fail(hash, sig, format!("request {} {:?}: _event.data is {} expected {} :: {}", i, r, shape, want, ctx()));
                                }
                            } else {
                                for (j, (_, v)) in fields.iter().enumerate() {
                                    let got = m.args.get(2 + j).cloned().unwrap_or_default();
                                    if &got != v {
                                        return CaseResult::fail(hash, "data-differs", format!("request {} {:?}: _event.data.k{} is {:?} :: {}", i, r, j + 1, got, ctx()));
                                    }
                                }
                            }
                        }
                        Req::Content { content, .. } => {
                            if !plain(content) {
                                needs_encoding = true;
                            }
                            let got = if sc.ecma_receiver { shape.strip_prefix("S:").map(|s| s.to_string()) } else { Some(shape.clone()) };
                            if got.as_deref() != Some(content.as_str()) {
                                return CaseResult::fail(hash, "content-differs", format!("request {} {:?}: _event.data is {:?} :: {}", i, r, shape, ctx()));
                            }
                        }
                        _ => {
                            if sc.ecma_receiver && shape != "N" && shape != "M:[]" {
                                return CaseResult::fail(hash, "data-without-fields", format!("request {} {:?}: _event.data is {:?} :: {}", i, r, shape, ctx()));
                            }
                        }
                    }
                }
                Req::UnknownSession { name } | Req::NotANumber { name } => {
                    if status < 400 {
                        return CaseResult::fail(hash, "invalid-request-accepted", format!("request {} {:?} answered with status {} :: {}", i, r, status, ctx()));
                    }
                    if !events_named(name).is_empty() {
                        return CaseResult::fail(hash, "invalid-request-enqueued-an-event", format!("request {} {:?} :: {}", i, r, ctx()));
                    }
                }
                Req::MissingName { .. } => {
                    if status < 400 {
                        return CaseResult::fail(hash, "invalid-request-accepted", format!("request {} {:?} (no event name) answered with status {} :: {}", i, r, status, ctx()));
                    }
                }
                Req::FromSession { name, v1, v2, .. } => {
                    if !plain(name) || !plain(v1) {
                        needs_encoding = true;
                    }
                    expected_names.push(name.clone());
                    let evs = events_named(name);
                    if evs.len() != 1 {
                        return CaseResult::fail(hash, if evs.is_empty() { "sent-event-missing" } else { "sent-event-twice" }, format!("request {} {:?}: {} events with that name were processed :: {}", i, r, evs.len(), ctx()));
                    }
                    let m = evs[0];
                    let ok = if sc.ecma_receiver {
                        let want = format!("M:{}", serde_json::to_string(&vec![vec!["p1".to_string(), v1.clone()], vec!["p2".to_string(), v2.to_string()]]).unwrap());
                        m.args.get(1) == Some(&want)
                    } else {
                        m.args.get(5) == Some(v1) && m.args.get(6) == Some(&v2.to_string())
                    };
                    if !ok {
                        return CaseResult::fail(hash, "sent-data-differs", format!("request {} {:?}: receiver mark {:?} :: {}", i, r, m.args, ctx()));
                    }
                }
            }
        }
        // each poster waits for the response before it issues its next request: its events keep their order
        for p in 0..posters {
            let mine: Vec<&String> = sc.reqs.iter().enumerate().filter(|(i, (r, _))| i % posters == p && matches!(r, Req::Fields { .. } | Req::Content { .. } | Req::NameOnly { .. })).map(|(_, (r, _))| match r {
                Req::Fields { name, .. } | Req::Content { name, .. } | Req::NameOnly { name } => name,
                _ => unreachable!(),
            }).collect();
            let seen: Vec<&String> = rxs.iter().filter_map(|m| m.args.first()).filter(|n| mine.contains(n)).collect();
            if seen != mine {
                return CaseResult::fail(hash, "poster-order", format!("poster {} posted {:?} one after the other, the receiver processed them as {:?} :: {}", p, mine, seen, ctx()));
            }
        }
        // nothing else arrived
        for m in &rxs {
            let n = m.args.first().cloned().unwrap_or_default();
            if !expected_names.contains(&n) {
                return CaseResult::fail(hash, "unexpected-event", format!("the receiver processed {:?} which no valid request named :: {}", m.args, ctx()));
            }
        }
        if !ended {
            return CaseResult::fail(hash, "session-did-not-stop", format!("a session did not end within 10 s after cancel :: {}", ctx()));
        }
        let mut r = CaseResult::pass(hash, needs_encoding || posters >= 2);
        r.evaluations = n as u64;
        for (q, _) in &sc.reqs {
            r.classes.push(format!("req_{}", format!("{:?}", q).split(|c: char| !c.is_alphanumeric()).next().unwrap_or("")));
        }
        r.classes.sort();
        r.classes.dedup();
        if needs_encoding {
            r.classes.push("needs_percent_encoding".into());
        }
        if posters >= 2 {
            r.classes.push("concurrent_posters".into());
        }
        r.classes.push(if sc.ecma_receiver { "receiver_ecmascript".into() } else { "receiver_rfsm".into() });
        if want_sample {
            r.sample = Some(json!({"requests": sc.reqs.iter().map(|(q, b)| json!({"request": format!("{:?}", q), "body": b})).collect::<Vec<_>>(), "statuses": results.iter().map(|x| format!("{:?}", x)).collect::<Vec<_>>(), "receiver_marks": rxs.iter().map(|m| m.args.clone()).collect::<Vec<_>>()}));
        }
        r
    }
}
