//! C07 — final states raise done events and a top-level final ends the session cleanly.

use crate::doc::*;
use crate::engine::{CaseResult, Check, Phase, Tier};
use crate::refmodel::Rec;
use crate::sess::*;
use std::collections::BTreeMap;

pub struct C07;

/// Reference-free shutdown / done-event invariants over the observed stream.
fn final_oracle(c: &Case, trace: &[Rec], final_cfg: &Option<Vec<String>>) -> Result<(), (String, String)> {
    let flat = flatten(&c.doc);
    let idx = |id: &str| flat.iter().position(|f| f.id == id);
    // --- done.state.<parent> directly after the entry (and entry content) of a final child
    for (i, r) in trace.iter().enumerate() {
        if let Rec::Enter(s) = r {
            if let Some(si) = idx(s) {
                if matches!(flat[si].kind, Kind::Final) {
                    if let Some(p) = flat[si].parent {
                        // next non-mark record must be ISend(done.state.parent)
                        let mut k = i + 1;
                        while matches!(trace.get(k), Some(Rec::Mark(..))) {
                            k += 1;
                        }
                        let want = format!("done.state.{}", flat[p].id);
                        match trace.get(k) {
                            Some(Rec::ISend(n)) if *n == want => {}
                            other => return Err(("done-state-missing".into(), format!("record {}: final state {} entered but next interpreter event is {:?}, expected ISend({})", i, s, other, want))),
                        }
                        // parallel grandparent: done.state.<grandparent> iff all its regions are in a final state now
                        if let Some(gp) = flat[p].parent {
                            if matches!(flat[gp].kind, Kind::Parallel) {
                                // configuration at this moment = last Cfg modified by exits/entries since; approximate with the Cfg that follows,
                                // restricted to states entered up to here: use the stream-reconstructed running set
                                let mut running: Vec<String> = Vec::new();
                                for r2 in &trace[..=i] {
                                    match r2 {
                                        Rec::Enter(x) => running.push(x.clone()),
                                        Rec::Exit(x) => running.retain(|y| y != x),
                                        _ => {}
                                    }
                                }
                                let in_final = |region: usize| -> bool {
                                    fn rec(flat: &[Flat], running: &[String], s: usize) -> bool {
                                        let real: Vec<usize> = flat[s].children.iter().cloned().filter(|c| !matches!(flat[*c].kind, Kind::History { .. })).collect();
                                        match flat[s].kind {
                                            Kind::State if !real.is_empty() => real.iter().any(|c| matches!(flat[*c].kind, Kind::Final) && running.contains(&flat[*c].id)),
                                            Kind::Parallel => real.iter().all(|c| rec(flat, running, *c)),
                                            _ => false,
                                        }
                                    }
                                    rec(&flat, &running, region)
                                };
                                let regions: Vec<usize> = flat[gp].children.iter().cloned().filter(|c| !matches!(flat[*c].kind, Kind::History { .. })).collect();
                                let all = regions.iter().all(|r| in_final(*r));
                                let wantgp = format!("done.state.{}", flat[gp].id);
                                let has = matches!(trace.get(k + 1), Some(Rec::ISend(n)) if *n == wantgp);
                                if all != has {
                                    return Err(("done-state-parallel".into(), format!("record {}: after final {} all regions of {} final = {}, but done.state.{} raised = {}", i, s, flat[gp].id, all, flat[gp].id, has)));
                                }
                            }
                        }
                    }
                }
            }
        }
    }
    // --- shutdown
    let top_final_pos = trace.iter().position(|r| matches!(r, Rec::Enter(s) if idx(s).map(|i| matches!(flat[i].kind, Kind::Final) && flat[i].parent.is_none()).unwrap_or(false)));
    let cancel_pos = trace.iter().position(|r| matches!(r, Rec::ExtDeq(n) if n == crate::refmodel::CANCEL));
    let end_pos = match (top_final_pos, cancel_pos) {
        (Some(a), Some(b)) => Some(a.min(b)),
        (a, b) => a.or(b),
    };
    let Some(end) = end_pos else { return Err(("no-shutdown".into(), "the session neither reached a top-level final state nor processed the cancel event".into())) };
    // after the microstep that entered the top-level final (its Cfg record) / after the cancel: no more event processing
    let mut k = end + 1;
    if top_final_pos == Some(end) {
        while k < trace.len() && !matches!(trace[k], Rec::Cfg(_)) {
            k += 1;
        }
        k += 1;
    }
    let last_cfg: Vec<String> = trace[..k.min(trace.len())].iter().rev().find_map(|r| match r {
        Rec::Cfg(c) | Rec::Idle(c, _) => Some(c.clone()),
        _ => None,
    }).unwrap_or_default();
    for (j, r) in trace.iter().enumerate().skip(k) {
        match r {
            Rec::Mark(..) => {}
            other => return Err(("activity-after-shutdown".into(), format!("record {}: {:?} after the session had ended (record {})", j, other, end))),
        }
    }
    // every active state's onexit marks exactly once, in exit order (reverse document order)
    if c.doc.dm != DM::Null {
        let marks: Vec<&String> = trace.iter().skip(k).filter_map(|r| if let Rec::Mark(t, _) = r { Some(t) } else { None }).collect();
        let mut expected: Vec<String> = Vec::new();
        let mut order: Vec<usize> = last_cfg.iter().filter_map(|s| idx(s)).collect();
        order.sort();
        order.reverse();
        let mut blocks: BTreeMap<String, usize> = BTreeMap::new();
        for_each_state(&c.doc, &mut |s| {
            blocks.insert(s.id.clone(), s.onexit.len());
        });
        for s in order {
            for b in 0..*blocks.get(&flat[s].id).unwrap_or(&0) {
                expected.push(format!("ex:{}:{}", flat[s].id, b));
            }
        }
        let got: Vec<String> = marks.iter().filter(|m| m.starts_with("ex:")).map(|m| m.to_string()).collect();
        if got != expected {
            return Err(("shutdown-onexit".into(), format!("onexit marks at shutdown {:?}, expected {:?} (configuration {:?})", got, expected, last_cfg)));
        }
    }
    if let Some(fc) = final_cfg {
        let mut a = fc.clone();
        let mut b = last_cfg.clone();
        a.sort();
        b.sort();
        if a != b {
            return Err(("final-configuration".into(), format!("final configuration reported to the host {:?}, configuration at shutdown {:?}", fc, last_cfg)));
        }
    } else {
        return Err(("final-configuration-missing".into(), "no final configuration was reported to the host".into()));
    }
    Ok(())
}

impl Check for C07 {
    fn id(&self) -> &'static str {
        "C07"
    }
    fn rule(&self) -> String {
        "finals profile: final states at every nesting level and inside (nested) parallel regions, done.state handlers, events still queued behind the one that reaches a top-level final; sessions end by top-level final or by the platform cancel event. \
         Oracle: trace equality with the reference interpreter (done events, order, exactly-once) + reference-free invariants: done.state.<parent> follows the entry of each final child, done.state.<parallel> iff all regions are final at that moment, \
         nothing but onexit content after the session ended, each active state's onexit exactly once in exit order, reported final configuration == configuration at shutdown. \
         Non-trivial = a parallel completed (done.state.<parallel>) or the session reached a top-level final with >= 1 event still queued or >= 2 done events; distinct = hash of document + events + mode."
            .into()
    }
    fn assumptions(&self) -> Vec<String> {
        vec!["done.invoke towards an invoking parent is checked by C14 (two-session scenarios)".into()]
    }
    fn phases(&self, tier: Tier) -> Vec<Phase> {
        match tier {
            Tier::Quick => vec![Phase::random("finals-profile", 25_000, 2048).batch(100).watchdog(30_000)],
            Tier::Thorough => vec![Phase::random("finals-profile", 400_000, 2048).batch(200).watchdog(30_000)],
        }
    }
    fn describe(&self, _phase: usize, tape: &[u8]) -> String {
        let c = decode(tape, &Profile::finals(), None);
        format!("events {:?} mode {:?}\n{}", c.events, c.mode, c.xml)
    }
    fn min_nontrivial_pct(&self) -> u32 {
        8
    }
    fn run(&self, _phase: usize, tape: &[u8], want_sample: bool) -> CaseResult {
        let c = decode(tape, &Profile::finals(), None);
        compare_case(
            &c,
            want_sample,
            &|st, _| st.parallel_done || (st.reached_top_final && st.shutdown_with_queued >= 1) || st.done_events >= 2,
            &|c, _rr, first| final_oracle(c, &first.trace, &first.final_cfg),
        )
    }
}
