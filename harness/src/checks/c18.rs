//! C18 — partial or failed .rfsm I/O is reported, never silently accepted.
//! Fault enumeration, exhaustive per generated image: every strict prefix, every failing write
//! call, several short-write patterns.

use crate::checks::c04::{gen_full_case, parse_rendered};
use crate::engine::{hash_str, CaseResult, Check, Phase, Tier};
use crate::serial::*;
use crate::tape::Tape;
use serde_json::json;

pub struct C18;

impl Check for C18 {
    fn id(&self) -> &'static str {
        "C18"
    }
    fn level(&self) -> &'static str {
        "fault_enumeration"
    }
    fn rule(&self) -> String {
        "images of models parsed from full-grammar documents (ids/strings mutated as in C05). Per image, exhaustively: (1) every strict prefix (each byte boundary) is given to FsmReader::read, which must return Err -- not Ok, not a panic; \
         (2) the writer runs against a sink that accepts at most k bytes per write call (k = 1, 2, 3, 7 and a generated k): the bytes that reach the sink must equal the reference image and has_error() must be false; \
         (3) the i-th write call fails, for every i, and flush fails: has_error() must be true after close(). evaluations = number of (image, cut / fault position) pairs. \
         Non-trivial = an image with executable content and >= 200 bytes (cuts fall inside multi-byte fields and nested content); distinct = hash of the image."
            .into()
    }
    fn assumptions(&self) -> Vec<String> {
        vec!["corrupted (bit-flipped) images are not part of the property and not examined".into()]
    }
    fn phases(&self, tier: Tier) -> Vec<Phase> {
        match tier {
            Tier::Quick => vec![Phase::random("images", 48, 4096).batch(3).watchdog(300_000)],
            Tier::Thorough => vec![Phase::random("images", 400, 4096).batch(5).watchdog(300_000)],
        }
    }
    fn min_nontrivial_pct(&self) -> u32 {
        30
    }
    fn shrink_budget(&self, _tier: Tier) -> usize {
        // one evaluation is a complete fault enumeration over an image
        12
    }
    fn run(&self, _phase: usize, tape: &[u8], want_sample: bool) -> CaseResult {
        let c = gen_full_case(tape);
        let mut fsm = match parse_rendered(&c.a, "c18") {
            Ok(m) => m,
            Err(e) => return CaseResult::discard(&format!("reader: {}", e.chars().take(60).collect::<String>())),
        };
        let mut rev: Vec<u8> = tape.to_vec();
        rev.reverse();
        let mut t = Tape::new(&rev);
        if t.bool() {
            // keep the image small enough for the exhaustive prefix scan: no 9000-byte strings
            let _ = mutate_model(&mut fsm, &mut t);
        }
        let (image, werr) = match write_fsm(&fsm) {
            Ok(x) => x,
            Err(e) => return CaseResult::discard(&format!("writer panics (C05's subject): {}", e.chars().take(40).collect::<String>())),
        };
        if werr {
            return CaseResult::discard("writer error on Vec sink (C05's subject)");
        }
        let hash = hash_str(&crate::tape::to_hex(&image[..image.len().min(4000)]));
        let mut evals = 0u64;
        // the complete image must be readable, otherwise prefixes prove nothing
        match read_fsm(&image) {
            ReadOutcome::Ok(_) => {}
            _ => return CaseResult::discard("complete image not readable (C05's subject)"),
        }
        // (1) every strict prefix
        let step = if image.len() > 20_000 { 7 } else { 1 };
        let mut n = 0;
        while n < image.len() {
            evals += 1;
            match read_fsm(&image[..n]) {
                ReadOutcome::Err(_) => {}
                ReadOutcome::Ok(f) => {
                    return CaseResult::fail(hash, "truncated-image-accepted", format!("prefix of {} of {} bytes is returned as Ok (model with {} states, {} transitions)", n, image.len(), f.states.len(), f.transitions.len()));
                }
                ReadOutcome::Panic(p) => {
                    let loc = p.lines().next().unwrap_or("").rsplit('@').next().unwrap_or("").trim().to_string();
                    let loc = loc.rsplit("/src/").next().unwrap_or(&loc).to_string();
                    return CaseResult::fail(hash, &format!("truncated-image-panics@{}", loc), format!("prefix of {} of {} bytes: {}", n, image.len(), p.trim()));
                }
            }
            n += step;
        }
        // (2) short writes
        let gen_k = 1 + t.below(64);
        for k in [1usize, 2, 3, 7, gen_k] {
            evals += 1;
            let (bytes, _calls, err, panic) = write_fsm_faulty(&fsm, FaultySink::new(k, None, false));
            if let Some(p) = panic {
                return CaseResult::fail(hash, "writer-panics-on-short-write", p);
            }
            if bytes != image {
                return CaseResult::fail(hash, "short-write-loses-bytes", format!("sink accepting {} byte(s) per call received {} bytes, the complete image has {}; has_error() = {}", k, bytes.len(), image.len(), err));
            }
            if err {
                return CaseResult::fail(hash, "short-write-reported-as-error", format!("sink accepting {} byte(s) per call: complete image emitted but has_error() is set", k));
            }
        }
        // (3) failing write calls
        let (_, calls, _, _) = write_fsm_faulty(&fsm, FaultySink::new(usize::MAX, None, false));
        for i in 0..calls {
            evals += 1;
            let (_bytes, _c, err, panic) = write_fsm_faulty(&fsm, FaultySink::new(usize::MAX, Some(i), false));
            if let Some(p) = panic {
                return CaseResult::fail(hash, "writer-panics-on-failed-write", p);
            }
            if !err {
                return CaseResult::fail(hash, "failed-write-not-reported", format!("write call {} of {} failed but has_error() is false after close()", i, calls));
            }
        }
        evals += 1;
        let (_b, _c, err, _p) = write_fsm_faulty(&fsm, FaultySink::new(usize::MAX, None, true));
        if !err {
            return CaseResult::fail(hash, "failed-flush-not-reported", "flush failed but has_error() is false after close()".into());
        }
        let mut r = CaseResult::pass(hash, image.len() >= 200 && !fsm.executableContent.is_empty());
        r.evaluations = evals;
        r.classes.push(format!("image_bytes_{}", if image.len() < 1000 { "<1k" } else if image.len() < 5000 { "1k-5k" } else { ">=5k" }));
        if want_sample {
            r.sample = Some(json!({"image_bytes": image.len(), "write_calls": calls, "prefixes_tried": image.len() / step, "image_head_hex": crate::tape::to_hex(&image[..image.len().min(64)])}));
        }
        r
    }
}
