//! C02 — each microstep takes exactly the W3C optimal transition set, deterministically.

use crate::doc::*;
use crate::engine::{CaseResult, Check, Phase, Tier};
use crate::runner::diff_traces;
use crate::sess::*;

pub struct C02;

impl Check for C02 {
    fn id(&self) -> &'static str {
        "C02"
    }
    fn rule(&self) -> String {
        "generated conformant statecharts with a mark in every entry/exit/transition/initial/history body x generated event sequences; the projected trace (selected transitions per microstep, exit order, \
         body order, entry order, done events, configuration after every microstep, history values at idle) must equal the trace of the reference interpreter, and a second run (fresh parse, fresh session) must \
         reproduce the first exactly. Non-trivial = some atomic state had >= 2 candidate transitions, or a microstep took >= 2 transitions, or a pre-emption happened (measured on the reference run); \
         distinct = hash of document text + events + mode."
            .into()
    }
    fn assumptions(&self) -> Vec<String> {
        vec![
            "oracle = harness/src/refmodel.rs, written from the pseudo-code of the Recommendation (appendix D)".into(),
            "the implicit <scxml> wrapper state is filtered from configurations".into(),
        ]
    }
    fn phases(&self, tier: Tier) -> Vec<Phase> {
        match tier {
            Tier::Quick => vec![Phase::random("structure-profile", 8_000, 2048).batch(100).watchdog(30_000)],
            Tier::Thorough => vec![Phase::random("structure-profile", 150_000, 2048).batch(200).watchdog(30_000)],
        }
    }
    fn describe(&self, _phase: usize, tape: &[u8]) -> String {
        let c = decode(tape, &Profile::structure(), None);
        format!("events {:?} mode {:?}\n{}", c.events, c.mode, c.xml)
    }
    fn min_nontrivial_pct(&self) -> u32 {
        15
    }
    fn run(&self, _phase: usize, tape: &[u8], want_sample: bool) -> CaseResult {
        let c = decode(tape, &Profile::structure(), None);
        compare_case(
            &c,
            want_sample,
            &|st, _| st.multi_candidate || st.max_selected >= 2 || st.preemption,
            &|c, _rr, first| {
                // determinism: fresh parse, fresh session, same trace
                match real_run(&c.xml, &c.events, c.mode) {
                    Ok(second) => match diff_traces(&first.trace, &second.trace) {
                        None => Ok(()),
                        Some(d) => Err(("nondeterministic-trace".to_string(), format!("two runs of the same case differ: {}\n{}", d, c.xml))),
                    },
                    Err(e) => Err(("nondeterministic-parse".to_string(), e)),
                }
            },
        )
    }
}
