//! C02 — each microstep takes exactly the W3C optimal transition set, deterministically.

use crate::doc::*;
use crate::engine::{hash_str, CaseResult, Check, Phase, Tier};
use crate::refmodel::{Interp, Mode, Model};
use crate::runner::diff_traces;
use crate::sess::*;
use crate::tape::Tape;
use std::collections::{BTreeMap, VecDeque};

pub struct C02;

fn small_profile() -> Profile {
    let mut p = Profile::structure();
    p.max_states = 7;
    p.max_depth = 3;
    p.max_trans = 3;
    p.pct_cond = 15;
    p.pct_eventless = 6;
    p.pct_targetless = 8;
    p.pct_unknown_event = 0;
    p
}

/// Complete states (configuration, history, data) after each prefix of `events`, from the reference model.
fn idle_keys(doc: &Doc, events: &[String]) -> Option<Vec<String>> {
    let m = Model::build(doc);
    let mut it = Interp::new(&m);
    if !it.run(events, Mode::FedAtIdle) {
        return None;
    }
    Some(it.idle_keys.clone())
}

/// Phase 1: a small document; breadth-first exploration of its reachable graph in the reference
/// model; every edge (state x event) becomes one path that is replayed on the real interpreter.
fn run_tour(tape: &[u8], want_sample: bool) -> CaseResult {
    const MAX_STATES: usize = 40;
    const MAX_DEPTH: usize = 7;
    let mut t = Tape::new(tape);
    let p = small_profile();
    // (tiny documents have nothing to tour: draw again, a few times)
    let mut doc = gen_doc(&mut t, &p);
    for _ in 0..4 {
        if flatten(&doc).len() >= 4 {
            break;
        }
        doc = gen_doc(&mut t, &p);
    }
    let xml = crate::render::render_doc(&doc);
    // alphabet: up to three names that transitions mention, plus one that nothing matches
    let mut alphabet: Vec<String> = Vec::new();
    for_each_state(&doc, &mut |s: &State| {
        for tr in &s.transitions {
            for e in &tr.events {
                let base = e.trim_end_matches(".*").trim_end_matches('.').to_string();
                if base != "*" && !base.starts_with("done.") && !alphabet.contains(&base) && alphabet.len() < 5 {
                    alphabet.push(base);
                }
            }
        }
    });
    alphabet.push("zz".to_string());
    let hash = hash_str(&xml);
    let Some(k0) = idle_keys(&doc, &[]) else { return CaseResult::discard("reference model exceeds 200 microsteps in a macrostep") };
    let mut seen: BTreeMap<String, Vec<String>> = BTreeMap::new();
    let mut queue: VecDeque<Vec<String>> = VecDeque::new();
    let mut paths: Vec<Vec<String>> = Vec::new();
    let mut truncated = false;
    if let Some(k) = k0.first() {
        seen.insert(k.clone(), vec![]);
        queue.push_back(vec![]);
    } else {
        // the session ends during its initial macrostep: one path, the empty one
        paths.push(vec![]);
    }
    while let Some(seq) = queue.pop_front() {
        for e in &alphabet {
            let mut path = seq.clone();
            path.push(e.clone());
            let Some(keys) = idle_keys(&doc, &path) else { return CaseResult::discard("reference model exceeds 200 microsteps in a macrostep") };
            paths.push(path.clone());
            if let Some(k) = keys.get(path.len()) {
                if !seen.contains_key(k) {
                    if seen.len() >= MAX_STATES || path.len() >= MAX_DEPTH {
                        truncated = true;
                    } else {
                        seen.insert(k.clone(), path.clone());
                        queue.push_back(path);
                    }
                }
            }
        }
    }
    // a path that is a proper prefix of another one is covered by it
    let all = paths.clone();
    paths.retain(|p| !all.iter().any(|q| q.len() > p.len() && q[..p.len()] == p[..]));
    let mut classes: Vec<String> = Vec::new();
    let mut interesting = false;
    let mut sample = None;
    for path in &paths {
        let c = Case { doc: doc.clone(), events: path.clone(), mode: Mode::FedAtIdle, xml: xml.clone() };
        let r = compare_case(&c, want_sample && sample.is_none(), &|st, _| st.multi_candidate || st.max_selected >= 2 || st.preemption, &|_, _, _| Ok(()));
        match &r.verdict {
            crate::engine::Verdict::Pass => {
                interesting |= r.nontrivial;
                for cl in r.classes {
                    if !classes.contains(&cl) {
                        classes.push(cl);
                    }
                }
                if sample.is_none() {
                    sample = r.sample;
                }
            }
            crate::engine::Verdict::Discard(_) => {}
            _ => return r,
        }
    }
    let mut r = CaseResult::pass(hash, interesting && seen.len() >= 3);
    r.evaluations = paths.len() as u64;
    classes.push(if truncated { "graph_truncated".into() } else { "graph_complete".into() });
    classes.push(format!("reachable_states_{}", match seen.len() { 0..=2 => "1-2", 3..=9 => "3-9", _ => "10-40" }));
    r.classes = classes;
    if want_sample {
        r.sample = Some(serde_json::json!({"scxml": xml, "alphabet": alphabet, "reachable_states": seen.len(), "maximal_paths": paths.len(), "truncated": truncated, "one_path": sample}));
    }
    r
}

impl Check for C02 {
    fn id(&self) -> &'static str {
        "C02"
    }
    fn rule(&self) -> String {
        "generated conformant statecharts with a mark in every entry/exit/transition/initial/history body x generated event sequences; the projected trace (selected transitions per microstep, exit order, \
         body order, entry order, done events, configuration after every microstep, history values at idle) must equal the trace of the reference interpreter, and a second run (fresh parse, fresh session) must \
         reproduce the first exactly. Second phase (small-document tours): documents with at most 7 states; the reference model explores the reachable graph over (configuration, history value, data) breadth first \
         (alphabet = up to 5 event names the document mentions + one unmatched name; at most 40 states, depth 7; class graph_complete / graph_truncated says whether the bound was hit) and every edge of that graph is replayed \
         on the real interpreter as a path from the initial state (evaluations = maximal paths). Non-trivial = some atomic state had >= 2 candidate transitions, or a microstep took >= 2 transitions, or a pre-emption happened (measured on the reference run); \
         distinct = hash of document text + events + mode."
            .into()
    }
    fn assumptions(&self) -> Vec<String> {
        vec![
            "oracle = harness/src/refmodel.rs, written from the pseudo-code of the Recommendation (appendix D)".into(),
            "the implicit <scxml> wrapper state is filtered from configurations".into(),
        ]
    }
    fn phases(&self, tier: Tier) -> Vec<Phase> {
        match tier {
            Tier::Quick => vec![Phase::random("structure-profile", 8_000, 2048).batch(100).watchdog(30_000), Phase::random("small-document-tours", 1_200, 1024).batch(10).watchdog(60_000)],
            Tier::Thorough => vec![Phase::random("structure-profile", 150_000, 2048).batch(200).watchdog(30_000), Phase::random("small-document-tours", 25_000, 1024).batch(20).watchdog(60_000)],
        }
    }
    fn describe(&self, phase: usize, tape: &[u8]) -> String {
        if phase == 1 {
            let mut t = Tape::new(tape);
            let p = small_profile();
            let mut doc = gen_doc(&mut t, &p);
            for _ in 0..4 {
                if flatten(&doc).len() >= 4 {
                    break;
                }
                doc = gen_doc(&mut t, &p);
            }
            return crate::render::render_doc(&doc);
        }
        let c = decode(tape, &Profile::structure(), None);
        format!("events {:?} mode {:?}\n{}", c.events, c.mode, c.xml)
    }
    fn min_nontrivial_pct(&self) -> u32 {
        15
    }
    fn run(&self, phase: usize, tape: &[u8], want_sample: bool) -> CaseResult {
        if phase == 1 {
            return run_tour(tape, want_sample);
        }
        let c = decode(tape, &Profile::structure(), None);
        compare_case(
            &c,
            want_sample,
            &|st, _| st.multi_candidate || st.max_selected >= 2 || st.preemption,
            &|c, _rr, first| {
                // determinism: fresh parse, fresh session, same trace
                match real_run(&c.xml, &c.events, c.mode) {
                    Ok(second) => match diff_traces(&first.trace, &second.trace) {
                        None => Ok(()),
                        Some(d) => Err(("nondeterministic-trace".to_string(), format!("two runs of the same case differ: {}\n{}", d, c.xml))),
                    },
                    Err(e) => Err(("nondeterministic-parse".to_string(), e)),
                }
            },
        )
    }
}
