//! C15 — the SCXML event I/O processor routes each send to exactly the addressed queue.
//!
//! Topologies of router sessions (siblings started by the host, children started by <invoke>);
//! every router has generated command transitions, each executing one <send> of a generated
//! target form / payload shape / id form; every session marks every event it processes with all
//! its fields and answers it with a reply addressed to _event.origin.

use crate::engine::{hash_str, CaseResult, Check, Phase, Tier};
use crate::scen::*;
use crate::tape::Tape;
use rufsm::datamodel::Data;
use rufsm::fsm::{Event, ParamPair};
use serde_json::json;
use std::collections::{BTreeMap, BTreeSet};
use std::sync::{Arc, Barrier};
use std::time::Duration;

pub struct C15;

#[derive(Clone, Debug, PartialEq)]
enum Target {
    /// no target: own external queue
    None,
    Internal { expr: bool },
    /// literal "#_scxml_<id>" of a session started earlier (index into the top-level sessions)
    SessionLiteral(usize),
    /// targetexpr "'#_scxml_' + _event.data.to"; the addressee is chosen by the host (node index)
    SessionExpr(usize),
    /// own location taken from _ioprocessors
    OwnLocation,
    Parent { expr: bool },
    Child { expr: bool },
}

#[derive(Clone, Debug, PartialEq)]
enum Payload {
    None,
    Params(Vec<PVal>),
    Namelist,
    ContentText(String),
    ContentExpr,
}

#[derive(Clone, Debug, PartialEq)]
enum PVal {
    Int(i64),
    Str(String),
    Var,
}

#[derive(Clone, Debug, PartialEq)]
enum IdForm {
    None,
    Literal,
    Location,
}

#[derive(Clone, Debug)]
struct Cmd {
    target: Target,
    payload: Payload,
    id: IdForm,
    /// 0 none, 1 type="scxml", 2 full URI, 3 typeexpr
    ty: u8,
}

#[derive(Clone, Debug)]
struct NodeSpec {
    cmds: Vec<Cmd>,
    /// child router (explicit invoke id "kid" or generated id stored in kidid)
    child: Option<(bool, Vec<Cmd>)>,
    ecma: bool,
}

#[derive(Debug)]
struct Scenario {
    nodes: Vec<NodeSpec>,
    /// host threads x (node index incl. children, command index)
    runs: Vec<Vec<(usize, usize)>>,
    jitter: u64,
    /// sessions started concurrently for the id-uniqueness part: threads x sessions per thread
    burst: (usize, usize),
}

const STRS: [&str; 6] = ["a", "two words", "x&y<z>", "\u{e9}\u{fc}", "", "#_internal"];

fn gen_cmd(t: &mut Tape, idx: usize, is_child: bool, has_child: bool, explicit_child_id: bool) -> Cmd {
    let mut forms: Vec<Target> = vec![Target::None, Target::Internal { expr: false }, Target::Internal { expr: true }, Target::SessionExpr(0), Target::SessionExpr(0), Target::OwnLocation];
    if idx > 0 {
        forms.push(Target::SessionLiteral(0));
        forms.push(Target::SessionLiteral(0));
    }
    if is_child {
        forms.push(Target::Parent { expr: false });
        forms.push(Target::Parent { expr: true });
    }
    if has_child {
        // the literal form needs an invoke id the author knows
        forms.push(Target::Child { expr: !explicit_child_id });
        forms.push(Target::Child { expr: true });
    }
    let mut target = t.pick(&forms).clone();
    match &mut target {
        Target::SessionLiteral(i) => *i = t.below(idx),
        Target::SessionExpr(i) => *i = t.below(16),
        _ => {}
    }
    let payload = match t.below(6) {
        0 => Payload::None,
        1 | 2 => Payload::Params((0..3).map(|_| match t.below(3) { 0 => PVal::Int(t.range(-5, 1000)), 1 => PVal::Str(t.pick(&STRS).to_string()), _ => PVal::Var }).collect()),
        3 => Payload::Namelist,
        4 => Payload::ContentText(["hello", "two words", "42"][t.below(3)].to_string()),
        _ => Payload::ContentExpr,
    };
    let id = match t.below(4) {
        0 | 1 => IdForm::None,
        2 => IdForm::Literal,
        _ => IdForm::Location,
    };
    Cmd { target, payload, id, ty: t.below(4) as u8 }
}

fn decode(tape: &[u8]) -> Scenario {
    let mut t = Tape::new(tape);
    let n = 2 + t.below(4);
    let mut nodes = Vec::new();
    for i in 0..n {
        let has_child = t.chance(45);
        let explicit = t.bool();
        let ncmd = 1 + t.below(5);
        let cmds = (0..ncmd).map(|_| gen_cmd(&mut t, i, false, has_child, explicit)).collect();
        let child = if has_child {
            let nc = 1 + t.below(4);
            Some((explicit, (0..nc).map(|_| gen_cmd(&mut t, i, true, false, false)).collect()))
        } else {
            None
        };
        nodes.push(NodeSpec { cmds, child, ecma: t.chance(20) });
    }
    // flat list of addressable nodes: top-level 0..n, then children in order
    let total = n + nodes.iter().filter(|x| x.child.is_some()).count();
    let nthreads = 1 + t.below(4);
    let mut runs = Vec::new();
    for _ in 0..nthreads {
        let k = 1 + t.below(10);
        runs.push((0..k).map(|_| (t.below(total), t.below(5))).collect());
    }
    let jitter = if t.bool() { 1 + t.u32() as u64 } else { 0 };
    let burst = (2 + t.below(5), 1 + t.below(3));
    Scenario { nodes, runs, jitter, burst }
}

fn tag(node: &str, ci: usize) -> String {
    format!("{}c{}", node, ci)
}

fn shape_prefix(p: &Payload) -> &'static str {
    match p {
        Payload::None => "z",
        Payload::Params(_) => "p",
        Payload::Namelist => "n",
        Payload::ContentText(_) | Payload::ContentExpr => "c",
    }
}

fn esc(s: &str) -> String {
    s.replace('&', "&amp;").replace('<', "&lt;").replace('>', "&gt;").replace('"', "&quot;")
}

fn cmd_xml(c: &Cmd, node: &str, ci: usize, literal_ids: &[u32]) -> String {
    let tg = tag(node, ci);
    let mut a = format!("event=\"{}.{}\"", shape_prefix(&c.payload), tg);
    match &c.target {
        Target::None => {}
        Target::Internal { expr: false } => a.push_str(" target=\"#_internal\""),
        Target::Internal { expr: true } => a.push_str(" targetexpr=\"'#_internal'\""),
        Target::SessionLiteral(i) => a.push_str(&format!(" target=\"#_scxml_{}\"", literal_ids[*i])),
        Target::SessionExpr(_) => a.push_str(" targetexpr=\"'#_scxml_' + _event.data.to\""),
        Target::OwnLocation => a.push_str(" targetexpr=\"_ioprocessors.scxml.location\""),
        Target::Parent { expr: false } => a.push_str(" target=\"#_parent\""),
        Target::Parent { expr: true } => a.push_str(" targetexpr=\"'#_parent'\""),
        Target::Child { expr: false } => a.push_str(" target=\"#_kid\""),
        Target::Child { expr: true } => a.push_str(" targetexpr=\"'#_' + kidid\""),
    }
    match c.ty {
        1 => a.push_str(" type=\"scxml\""),
        2 => a.push_str(" type=\"http://www.w3.org/TR/scxml/#SCXMLEventProcessor\""),
        3 => a.push_str(" typeexpr=\"'scxml'\""),
        _ => {}
    }
    match c.id {
        IdForm::None => {}
        IdForm::Literal => a.push_str(&format!(" id=\"id.{}\"", tg)),
        IdForm::Location => a.push_str(" idlocation=\"loc\""),
    }
    if c.payload == Payload::Namelist {
        a.push_str(" namelist=\"n1 n2\"");
    }
    let body = match &c.payload {
        Payload::Params(ps) => ps
            .iter()
            .enumerate()
            .map(|(i, p)| {
                let e = match p {
                    PVal::Int(v) => v.to_string(),
                    PVal::Str(s) => format!("'{}'", esc(s)),
                    PVal::Var => "n1".to_string(),
                };
                format!("<param name=\"p{}\" expr=\"{}\"/>", i + 1, e)
            })
            .collect::<String>(),
        Payload::ContentText(s) => format!("<content>{}</content>", esc(s)),
        Payload::ContentExpr => "<content expr=\"n1 + 1\"/>".to_string(),
        _ => String::new(),
    };
    let loc = if c.id == IdForm::Location { ", loc" } else { "" };
    format!("    <transition event=\"cmd{ci}\">\n      <send {a}>{body}</send>\n      <raise event=\"aft.{tg}\"/>\n      <script>mark('sent', '{tg}'{loc})</script>\n    </transition>\n", ci = ci, a = a, body = body, tg = tg, loc = loc)
}

const RECEIVE: &str = r##"    <transition event="p"><script>mark('rx', _event.name, _event.type, _event.sendid, _event.origin, _event.origintype, _event.invokeid, _event.data.p1, _event.data.p2, _event.data.p3)</script><send eventexpr="'reply.' + _event.name" targetexpr="_event.origin" typeexpr="_event.origintype"/></transition>
    <transition event="n"><script>mark('rx', _event.name, _event.type, _event.sendid, _event.origin, _event.origintype, _event.invokeid, _event.data.n1, _event.data.n2)</script><send eventexpr="'reply.' + _event.name" targetexpr="_event.origin" typeexpr="_event.origintype"/></transition>
    <transition event="c"><script>mark('rx', _event.name, _event.type, _event.sendid, _event.origin, _event.origintype, _event.invokeid, _event.data)</script><send eventexpr="'reply.' + _event.name" targetexpr="_event.origin" typeexpr="_event.origintype"/></transition>
    <transition event="z"><script>mark('rx', _event.name, _event.type, _event.sendid, _event.origin, _event.origintype, _event.invokeid)</script><send eventexpr="'reply.' + _event.name" targetexpr="_event.origin" typeexpr="_event.origintype"/></transition>
    <transition event="reply"><script>mark('reply', _event.name, _event.origin)</script></transition>
    <transition event="aft"><script>mark('aft', _event.name)</script></transition>
    <transition event="kid.ready"><script>mark('kidready', _event.invokeid, kidid, _event.origin)</script></transition>
    <transition event="error"><script>mark('err', _event.name, _event.sendid)</script></transition>
"##;

fn router_doc(name: &str, cmds: &[Cmd], child: Option<(bool, String)>, is_child: bool, ecma: bool, literal_ids: &[u32]) -> String {
    let mut trans = String::new();
    for (ci, c) in cmds.iter().enumerate() {
        trans.push_str(&cmd_xml(c, name, ci, literal_ids));
    }
    let invoke = match child {
        Some((true, doc)) => format!("    <invoke type=\"scxml\" id=\"kid\"><content>{}</content></invoke>\n    <onentry><assign location=\"kidid\" expr=\"'kid'\"/></onentry>\n", doc),
        Some((false, doc)) => format!("    <invoke type=\"scxml\" idlocation=\"kidid\"><content>{}</content></invoke>\n", doc),
        None => String::new(),
    };
    let ready = if is_child { "    <onentry><send event=\"kid.ready\" target=\"#_parent\"/><script>mark('ready')</script></onentry>\n" } else { "" };
    format!(
        r##"<scxml xmlns="http://www.w3.org/2005/07/scxml" version="1.0" name="{name}" datamodel="{dm}" initial="main">
  <datamodel><data id="n1" expr="11"/><data id="n2" expr="'two'"/><data id="loc" expr="''"/><data id="kidid" expr="''"/></datamodel>
  <state id="main">
{invoke}{ready}{trans}{receive}  </state>
</scxml>"##,
        name = name,
        dm = if ecma { "ecmascript" } else { "rfsm-expression" },
        invoke = invoke,
        ready = ready,
        trans = trans,
        receive = RECEIVE
    )
}

const BURST_DOC: &str = r##"<scxml xmlns="http://www.w3.org/2005/07/scxml" version="1.0" name="burst" datamodel="rfsm-expression" initial="main">
  <datamodel><data id="l1" expr="''"/><data id="l2" expr="''"/><data id="l3" expr="''"/><data id="k1" expr="''"/><data id="k2" expr="''"/></datamodel>
  <state id="main">
    <invoke type="scxml" idlocation="k1"><content><scxml xmlns="http://www.w3.org/2005/07/scxml" version="1.0" name="bk" datamodel="rfsm-expression"><state id="w"><onentry><script>mark('kid')</script></onentry></state></scxml></content></invoke>
    <invoke type="scxml" idlocation="k2"><content><scxml xmlns="http://www.w3.org/2005/07/scxml" version="1.0" name="bk" datamodel="rfsm-expression"><state id="w"><onentry><script>mark('kid')</script></onentry></state></scxml></content></invoke>
    <onentry>
      <send event="b1" idlocation="l1"/>
      <send event="b2" idlocation="l2" delay="1ms"/>
      <send event="b3" idlocation="l3"/>
    </onentry>
    <transition event="b3"><script>mark('ids', _sessionid, l1, l2, l3, k1, k2, _event.sendid)</script></transition>
  </state>
</scxml>"##;

/// Starts `bt` threads that each start `bn` sessions of BURST_DOC behind a barrier.
fn start_burst(scen: &mut Scen, bt: usize, bn: usize) -> Vec<u32> {
    let bar = Arc::new(Barrier::new(bt));
    // every round is released by a spinning barrier so that the starts really coincide
    let arrived = Arc::new(std::sync::atomic::AtomicUsize::new(0));
    let mut hs = Vec::new();
    for _ in 0..bt {
        let (exec, log, bar, arrived) = (scen.exec.clone(), scen.log.clone(), bar.clone(), arrived.clone());
        hs.push(std::thread::spawn(move || {
            let mut out = Vec::new();
            let fsms: Vec<_> = (0..bn).filter_map(|_| crate::runner::parse(BURST_DOC).ok()).collect();
            bar.wait();
            for (round, fsm) in fsms.into_iter().enumerate() {
                let mut a = rufsm::actions::ActionWrapper::new();
                a.add_action("mark", Box::new(ScenMark { log: log.clone() }));
                let ex = Box::new(exec.clone());
                arrived.fetch_add(1, std::sync::atomic::Ordering::SeqCst);
                let t0 = std::time::Instant::now();
                while arrived.load(std::sync::atomic::Ordering::SeqCst) < (round + 1) * bt && t0.elapsed() < Duration::from_millis(200) {
                    std::hint::spin_loop();
                }
                let s = rufsm::fsm::start_fsm_with_data_and_finish_mode(fsm, a, ex, &[], rufsm::fsm::FinishMode::NOTHING);
                out.push(s);
            }
            out
        }));
    }
    let mut burst_ids: Vec<u32> = Vec::new();
    for h in hs {
        if let Ok(v) = h.join() {
            for s in v {
                burst_ids.push(s.session_id);
                scen.sessions.push(s);
            }
        }
    }
    burst_ids
}

/// Oracle of the concurrent-creation part; `all_sessions` are the ids known from elsewhere.
fn check_ids(hash: u64, log: &[MRec], mut all_sessions: Vec<u32>) -> Option<CaseResult> {
    all_sessions.extend(log.iter().filter(|m| m.tag == "kid").map(|m| m.session));
    let uniq: BTreeSet<u32> = all_sessions.iter().copied().collect();
    if uniq.len() != all_sessions.len() {
        all_sessions.sort();
        return Some(CaseResult::fail(hash, "session-id-not-unique", format!("session ids {:?}", all_sessions)));
    }
    for m in log.iter().filter(|m| m.tag == "ids") {
        if m.args.first().map(|s| s.as_str()) != Some(m.session.to_string().as_str()) {
            return Some(CaseResult::fail(hash, "sessionid-variable-differs", format!("_sessionid reads {:?} in session {}", m.args.first(), m.session)));
        }
        let ids: Vec<&String> = m.args.iter().skip(1).take(5).collect();
        let u: BTreeSet<&String> = ids.iter().copied().collect();
        if u.len() != 5 || ids.iter().any(|s| blank(s)) {
            return Some(CaseResult::fail(hash, "generated-id-not-unique", format!("session {}: generated send ids / invoke ids {:?}", m.session, ids)));
        }
        if !ids[3].starts_with("main.") || !ids[4].starts_with("main.") {
            return Some(CaseResult::fail(hash, "invokeid-form", format!("session {}: generated invoke ids {:?} are not of the form stateid.platformid", m.session, &ids[3..])));
        }
        if m.args.get(6) != Some(ids[2]) {
            return Some(CaseResult::fail(hash, "sendid-differs", format!("session {}: event b3 carries sendid {:?}, idlocation stored {:?}", m.session, m.args.get(6), ids[2])));
        }
    }
    None
}

fn run_burst_case(tape: &[u8], want_sample: bool) -> CaseResult {
    let mut t = Tape::new(tape);
    let bt = 4 + t.below(13);
    let bn = 2 + t.below(7);
    let jitter = if t.bool() { 1 + t.u32() as u64 } else { 0 };
    rufsm::verif_sync::set_tracking(jitter != 0);
    rufsm::verif_sync::set_jitter(jitter);
    let hash = hash_str(&format!("burst {} {} {}", bt, bn, jitter));
    let mut scen = Scen::new();
    let ids = start_burst(&mut scen, bt, bn);
    let done = scen.wait_progress(Duration::from_secs(10), |l| {
        let r = l.recs.lock().unwrap();
        r.iter().filter(|m| m.tag == "ids").count() >= bt * bn && r.iter().filter(|m| m.tag == "kid").count() >= 2 * bt * bn
    });
    rufsm::verif_sync::set_jitter(0);
    scen.cancel_all();
    let (ended, panics) = scen.join_all(Duration::from_secs(10));
    rufsm::verif_sync::set_tracking(false);
    let log = scen.log.snapshot();
    if !panics.is_empty() {
        return CaseResult::fail(hash, "session-thread-panicked", panics.join(" | "));
    }
    if !done {
        return CaseResult::fail(hash, "burst-session-incomplete", format!("{} x {} sessions started concurrently: {} reported their ids, {} children started within 10 s", bt, bn, log.iter().filter(|m| m.tag == "ids").count(), log.iter().filter(|m| m.tag == "kid").count()));
    }
    if let Some(f) = check_ids(hash, &log, ids.clone()) {
        return f;
    }
    if !ended {
        return CaseResult::fail(hash, "session-did-not-stop", "a session did not end within 10 s after cancel".into());
    }
    let mut r = CaseResult::pass(hash, true);
    r.evaluations = (3 * bt * bn) as u64;
    r.classes.push(format!("threads_{}", if bt >= 10 { "10-16" } else { "4-9" }));
    if jitter != 0 {
        r.classes.push("lock_jitter".into());
    }
    if want_sample {
        let mut all: Vec<u32> = ids;
        all.extend(log.iter().filter(|m| m.tag == "kid").map(|m| m.session));
        all.sort();
        r.sample = Some(json!({"threads": bt, "sessions_per_thread": bn, "session_ids_incl_children": all, "one_session_generated_ids": log.iter().find(|m| m.tag == "ids").map(|m| m.args.clone())}));
    }
    r
}

struct Addr {
    name: String,
    /// index of the top-level session that owns it
    top: usize,
    is_child: bool,
    cmds: Vec<Cmd>,
    session: u32,
}

fn blank(s: &str) -> bool {
    matches!(s, "" | "null" | "None" | "undefined" | "none" | "Null")
}

impl Check for C15 {
    fn id(&self) -> &'static str {
        "C15"
    }
    fn rule(&self) -> String {
        "topologies of 2-5 router sessions started one after the other (so later documents can name earlier session ids literally), 45 % of them with an invoked child router (explicit invoke id 'kid' or generated id via idlocation), 20 % ECMAScript; each router has 1-5 command transitions executing one <send>: target none / '#_internal' / '#_scxml_<id>' literal / targetexpr '#_scxml_'+id (any session incl. itself and children) / _ioprocessors.scxml.location / '#_parent' / '#_kid' / '#_'+generated invoke id, each literal or as targetexpr; type none / 'scxml' / the full URI / typeexpr; payload none / 3 <param> (ints, strings needing escaping, variables) / namelist / <content> text / <content expr>; id none / literal / idlocation. 1-4 host threads issue 1-10 commands each concurrently. Every session marks each processed event with name, type, sendid, origin, origintype, invokeid and data members, and replies to _event.origin with typeexpr _event.origintype. \
         Oracle: each executed send is processed exactly once, by the addressed session, from the addressed queue ('#_internal': _event.type internal and directly after the sending macrostep; own external queue (no target, own session id, own location): processed only after the internal event that is raised right after the send; otherwise _event.type external); name, sendid (literal, generated = value stored by idlocation, or blank) and data equal what was sent; exactly one reply reaches the original sender. Second part (also as its own phase with 4-16 threads x 2-8 sessions): 2-6 threads start 1-3 sessions each behind a barrier; each makes 3 idlocation sends and 2 id-less invokes: all session ids distinct, generated ids distinct within their session, invoke ids of the form stateid.platformid. \
         Non-trivial = a send crossed a session boundary or used targetexpr; distinct = hash of the topology and commands."
            .into()
    }
    fn assumptions(&self) -> Vec<String> {
        vec!["an event or reply counts as lost when no session has processed anything for 5 s".into(), "generated send/invoke ids are required to be unique within their session (W3C 6.2.4 / 6.4.1); session ids globally".into()]
    }
    fn phases(&self, tier: Tier) -> Vec<Phase> {
        match tier {
            Tier::Quick => vec![Phase::random("router-topologies", 1_000, 384).batch(10).watchdog(120_000), Phase::random("concurrent-session-starts", 120, 16).batch(4).watchdog(120_000)],
            Tier::Thorough => vec![Phase::random("router-topologies", 15_000, 384).batch(20).watchdog(120_000), Phase::random("concurrent-session-starts", 2_000, 16).batch(4).watchdog(120_000)],
        }
    }
    fn max_workers(&self) -> usize {
        8
    }
    fn min_nontrivial_pct(&self) -> u32 {
        30
    }
    fn shrink_budget(&self, _tier: Tier) -> usize {
        120
    }
    fn run(&self, phase: usize, tape: &[u8], want_sample: bool) -> CaseResult {
        if phase == 1 {
            return run_burst_case(tape, want_sample);
        }
        let sc = decode(tape);
        rufsm::verif_sync::set_tracking(sc.jitter != 0);
        rufsm::verif_sync::set_jitter(sc.jitter);
        let mut scen = Scen::new();
        let describe = |sc: &Scenario| format!("{:?}", sc);
        let hash = hash_str(&describe(&sc));
        let finish = |scen: &mut Scen| {
            rufsm::verif_sync::set_jitter(0);
            scen.cancel_all();
            let r = scen.join_all(Duration::from_secs(10));
            rufsm::verif_sync::set_tracking(false);
            r
        };
        // ---- start the top-level sessions in order
        let mut addrs: Vec<Addr> = Vec::new();
        let mut top_ids: Vec<u32> = Vec::new();
        let mut docs: Vec<String> = Vec::new();
        for (i, n) in sc.nodes.iter().enumerate() {
            let name = format!("r{}", i);
            let child = n.child.as_ref().map(|(explicit, cmds)| (*explicit, router_doc(&format!("k{}", i), cmds, None, true, n.ecma, &top_ids)));
            let xml = router_doc(&name, &n.cmds, child, false, n.ecma, &top_ids);
            docs.push(xml.clone());
            match scen.start(&xml, &[]) {
                Ok(ix) => {
                    let id = scen.id(ix);
                    top_ids.push(id);
                    addrs.push(Addr { name, top: i, is_child: false, cmds: n.cmds.clone(), session: id });
                }
                Err(e) => {
                    finish(&mut scen);
                    return CaseResult::fail(hash, "reader-rejects-conformant-document", format!("{} :: {}", e, xml));
                }
            }
        }
        // children: wait for their ready marks
        let n_children = sc.nodes.iter().filter(|n| n.child.is_some()).count();
        let ready = scen.wait_progress(Duration::from_secs(10), |l| {
            let r = l.recs.lock().unwrap();
            r.iter().filter(|m| m.tag == "ready").count() >= n_children && r.iter().filter(|m| m.tag == "kidready").count() >= n_children
        });
        if !ready {
            let log = scen.log.snapshot();
            finish(&mut scen);
            return CaseResult::fail(hash, "child-not-started", format!("{} children expected, ready marks {:?} :: {}", n_children, log.iter().filter(|m| m.tag == "ready" || m.tag == "kidready" || m.tag == "err").map(|m| (m.session, m.tag.clone(), m.args.clone())).collect::<Vec<_>>(), docs.join("\n")));
        }
        // map child sessions to their parents through the sessions table (parent id is not exposed by marks):
        // the k-th 'kidready' mark of parent p names the invoke id; the child's own 'ready' mark gives its session id.
        // Children are matched to parents through the executor's session list order: child ids are allocated after
        // the parent's id and before the next top-level session's id (sessions are started one after the other).
        let log = scen.log.snapshot();
        let child_sessions: Vec<u32> = log.iter().filter(|m| m.tag == "ready").map(|m| m.session).collect();
        let mut invoke_id_of: BTreeMap<usize, String> = BTreeMap::new();
        for (i, n) in sc.nodes.iter().enumerate() {
            if let Some((_, cmds)) = &n.child {
                // the parent's mark of the child's first event names the child's location
                let kr = log.iter().find(|m| m.tag == "kidready" && m.session == top_ids[i]);
                let child_id = kr.and_then(|m| m.args.get(2)).and_then(|o| o.strip_prefix("#_scxml_")).and_then(|x| x.parse::<u32>().ok());
                let Some(child_id) = child_id.filter(|c| child_sessions.contains(c)) else {
                    finish(&mut scen);
                    return CaseResult::fail(hash, "child-ready-event-origin", format!("the parent r{} processed its child's first event with fields {:?}; child sessions are {:?}", i, kr.map(|m| &m.args), child_sessions));
                };
                addrs.push(Addr { name: format!("k{}", i), top: i, is_child: true, cmds: cmds.clone(), session: child_id });
                if let Some(m) = kr {
                    invoke_id_of.insert(i, m.args.first().cloned().unwrap_or_default());
                }
            }
        }
        // ---- run the commands from the host threads
        let exec = scen.exec.clone();
        let barrier = Arc::new(Barrier::new(sc.runs.len()));
        let mut issued: Vec<(usize, usize, usize)> = Vec::new(); // (addr index, cmd index, `to` addr index)
        let mut handles = Vec::new();
        let mut seen: BTreeSet<(usize, usize)> = BTreeSet::new();
        for run in &sc.runs {
            let mut mine: Vec<(u32, String, u32)> = Vec::new();
            for (ni, ci) in run {
                let ai = ni % addrs.len();
                let a = &addrs[ai];
                let ci = ci % a.cmds.len();
                // each command transition is executed at most once (tags are unique per command)
                if !seen.insert((ai, ci)) {
                    continue;
                }
                let to = match &a.cmds[ci].target {
                    Target::SessionExpr(k) => k % addrs.len(),
                    _ => 0,
                };
                issued.push((ai, ci, to));
                mine.push((a.session, format!("cmd{}", ci), addrs[to].session));
            }
            let (b, exec) = (barrier.clone(), exec.clone());
            handles.push(std::thread::spawn(move || {
                b.wait();
                for (sid, name, to) in mine {
                    let mut e = Event::new_simple(&name);
                    e.param_values = Some(vec![ParamPair::new("to", &Data::Integer(to as i64))]);
                    let _ = exec.send_to_session(sid, e);
                }
            }));
        }
        for h in handles {
            let _ = h.join();
        }
        // expected receiver of each issued command
        let receiver = |ai: usize, ci: usize, to: usize| -> u32 {
            let a = &addrs[ai];
            match &a.cmds[ci].target {
                Target::None | Target::Internal { .. } | Target::OwnLocation => a.session,
                Target::SessionLiteral(i) => top_ids[*i],
                Target::SessionExpr(_) => addrs[to].session,
                Target::Parent { .. } => top_ids[a.top],
                Target::Child { .. } => addrs.iter().find(|x| x.is_child && x.top == a.top).map(|x| x.session).unwrap_or(0),
            }
        };
        let name_of = |ai: usize, ci: usize| format!("{}.{}", shape_prefix(&addrs[ai].cmds[ci].payload), tag(&addrs[ai].name, ci));
        let done = scen.wait_progress(Duration::from_secs(5), |l| {
            let r = l.recs.lock().unwrap();
            issued.iter().all(|(ai, ci, _)| {
                let n = name_of(*ai, *ci);
                let rn = format!("reply.{}", n);
                r.iter().any(|m| m.tag == "rx" && m.args.first() == Some(&n)) && r.iter().any(|m| m.tag == "reply" && m.args.first() == Some(&rn))
            })
        });
        std::thread::sleep(Duration::from_millis(15));
        // ---- part 2: concurrent session creation
        let (bt, bn) = sc.burst;
        let burst_ids = start_burst(&mut scen, bt, bn);
        let burst_done = scen.wait_progress(Duration::from_secs(5), |l| l.recs.lock().unwrap().iter().filter(|m| m.tag == "ids").count() >= bt * bn);
        // burst children are cancelled by their parents
        let (ended, panics) = finish(&mut scen);
        let log = scen.log.snapshot();
        let ctx = |sc: &Scenario| format!("{}\n--- documents:\n{}", describe(sc), docs.join("\n"));
        if !panics.is_empty() {
            return CaseResult::fail(hash, "session-thread-panicked", format!("{} :: {}", panics.join(" | "), ctx(&sc)));
        }
        // ---- oracle part 1
        let mut crossing = 0;
        for (ai, ci, to) in &issued {
            let a = &addrs[*ai];
            let c = &a.cmds[*ci];
            let n = name_of(*ai, *ci);
            let form = format!("{:?}", c.target).split(|ch: char| !ch.is_alphanumeric()).next().unwrap_or("").to_string();
            let what = format!("send '{}' of {} (session {}, target {:?}, type form {}, payload {:?}, id {:?})", n, a.name, a.session, c.target, c.ty, c.payload, c.id);
            let sent = log.iter().find(|m| m.tag == "sent" && m.session == a.session && m.args.first() == Some(&tag(&a.name, *ci)));
            let Some(sent) = sent else {
                let errs: Vec<_> = log.iter().filter(|m| m.tag == "err" && m.session == a.session).map(|m| m.args.clone()).collect();
                return CaseResult::fail(hash, "command-not-executed", format!("{}: the command transition did not run to its end (error events in that session: {:?}) :: {}", what, errs, ctx(&sc)));
            };
            let rxs: Vec<&MRec> = log.iter().filter(|m| m.tag == "rx" && m.args.first() == Some(&n)).collect();
            let want = receiver(*ai, *ci, *to);
            if rxs.is_empty() {
                let errs: Vec<_> = log.iter().filter(|m| m.tag == "err").map(|m| (m.session, m.args.clone())).collect();
                let sig = format!("not-delivered:{}{}", form, if a.is_child { ":from-child" } else { "" });
                return CaseResult::fail(hash, &sig, format!("{} was never processed by any session (expected session {}; waited 5 s: {}; error events {:?}) :: {}", what, want, done, errs, ctx(&sc)));
            }
            if rxs.len() > 1 {
                return CaseResult::fail(hash, &format!("delivered-twice:{}", form), format!("{} was processed {} times (sessions {:?}) :: {}", what, rxs.len(), rxs.iter().map(|m| m.session).collect::<Vec<_>>(), ctx(&sc)));
            }
            let rx = rxs[0];
            if rx.session != want {
                return CaseResult::fail(hash, &format!("wrong-session:{}", form), format!("{} was processed by session {} instead of {} :: {}", what, rx.session, want, ctx(&sc)));
            }
            if want != a.session {
                crossing += 1;
            }
            let f = |i: usize| rx.args.get(i).cloned().unwrap_or_default();
            // queue
            let internal = matches!(c.target, Target::Internal { .. });
            if internal {
                if f(1) != "internal" {
                    return CaseResult::fail(hash, "internal-target-not-internal-queue", format!("{}: _event.type is {:?} :: {}", what, f(1), ctx(&sc)));
                }
                // directly after the sending macrostep: next mark of that session after 'sent'
                let next = log.iter().filter(|m| m.session == a.session && m.seq > sent.seq).min_by_key(|m| m.seq);
                if next.map(|m| m.seq) != Some(rx.seq) {
                    return CaseResult::fail(hash, "internal-event-not-next", format!("{}: another event was processed between the send and the internal event: {:?} :: {}", what, next.map(|m| (&m.tag, &m.args)), ctx(&sc)));
                }
            } else if rx.session == a.session {
                // own external queue: the internal event raised right after the send is processed first
                let aft = log.iter().find(|m| m.session == a.session && m.tag == "aft" && m.args.first() == Some(&format!("aft.{}", tag(&a.name, *ci))));
                match aft {
                    Some(m) if m.seq < rx.seq => {}
                    other => {
                        return CaseResult::fail(hash, &format!("self-addressed-event-not-through-external-queue:{}", form), format!("{}: the event raised after the send was processed {:?} the sent event (aft mark {:?}) :: {}", what, if other.is_some() { "after" } else { "never, unlike" }, other.map(|m| m.seq), ctx(&sc)));
                    }
                }
                if f(1) != "external" {
                    return CaseResult::fail(hash, &format!("event-type:{}", form), format!("{}: _event.type is {:?}, expected external :: {}", what, f(1), ctx(&sc)));
                }
            } else if f(1) != "external" {
                return CaseResult::fail(hash, &format!("event-type:{}", form), format!("{}: _event.type is {:?}, expected external :: {}", what, f(1), ctx(&sc)));
            }
            // sendid
            let want_id = match c.id {
                IdForm::None => String::new(),
                IdForm::Literal => format!("id.{}", tag(&a.name, *ci)),
                IdForm::Location => sent.args.get(1).cloned().unwrap_or_default(),
            };
            if !(f(2) == want_id || (blank(&f(2)) && want_id.is_empty())) {
                return CaseResult::fail(hash, "sendid-differs", format!("{}: _event.sendid is {:?}, expected {:?} :: {}", what, f(2), want_id, ctx(&sc)));
            }
            if c.id == IdForm::Location && blank(&want_id) {
                return CaseResult::fail(hash, "idlocation-not-set", format!("{}: the idlocation variable is empty after the send :: {}", what, ctx(&sc)));
            }
            // origin / origintype present
            if blank(&f(3)) || blank(&f(4)) {
                return CaseResult::fail(hash, "origin-missing", format!("{}: origin {:?} origintype {:?} :: {}", what, f(3), f(4), ctx(&sc)));
            }
            // data
            let expect_data: Vec<String> = match &c.payload {
                Payload::None => vec![],
                Payload::Params(ps) => ps.iter().map(|p| match p { PVal::Int(v) => v.to_string(), PVal::Str(s) => s.clone(), PVal::Var => "11".into() }).collect(),
                Payload::Namelist => vec!["11".into(), "two".into()],
                Payload::ContentText(s) => vec![s.clone()],
                Payload::ContentExpr => vec!["12".into()],
            };
            let got_data: Vec<String> = rx.args.iter().skip(6).cloned().collect();
            if got_data != expect_data {
                return CaseResult::fail(hash, &format!("data-differs:{}", shape_prefix(&c.payload)), format!("{}: data read {:?}, expected {:?} :: {}", what, got_data, expect_data, ctx(&sc)));
            }
            // reply
            let rn = format!("reply.{}", n);
            let replies: Vec<&MRec> = log.iter().filter(|m| m.tag == "reply" && m.args.first() == Some(&rn)).collect();
            if replies.len() != 1 || replies[0].session != a.session {
                let errs: Vec<_> = log.iter().filter(|m| m.tag == "err").map(|m| (m.session, m.args.clone())).collect();
                let sig = format!("reply:{}{}", if replies.is_empty() { "lost" } else if replies.len() > 1 { "twice" } else { "wrong-session" }, if a.is_child || addrs.iter().any(|x| x.session == want && x.is_child) { ":child-involved" } else { "" });
                return CaseResult::fail(hash, &sig, format!("{}: the reply sent to _event.origin {:?} (origintype {:?}) was processed by sessions {:?}, expected exactly once by {} (error events {:?}) :: {}", what, f(3), f(4), replies.iter().map(|m| m.session).collect::<Vec<_>>(), a.session, errs, ctx(&sc)));
            }
        }
        // invoke ids of generated form
        for (i, n) in sc.nodes.iter().enumerate() {
            if let Some((explicit, _)) = &n.child {
                let id = invoke_id_of.get(&i).cloned().unwrap_or_default();
                let ok = if *explicit { id == "kid" } else { id.starts_with("main.") && id.len() > 5 };
                if !ok {
                    return CaseResult::fail(hash, "invokeid-form", format!("child of r{} (explicit id: {}): _event.invokeid of its first event is {:?} :: {}", i, explicit, id, ctx(&sc)));
                }
            }
        }
        // ---- oracle part 2
        if !burst_done {
            return CaseResult::fail(hash, "burst-session-incomplete", format!("{} x {} sessions started concurrently, only {} reported their ids within 5 s", bt, bn, log.iter().filter(|m| m.tag == "ids").count()));
        }
        let mut all_sessions: Vec<u32> = top_ids.clone();
        all_sessions.extend(child_sessions.iter());
        all_sessions.extend(burst_ids.iter());
        if let Some(f) = check_ids(hash, &log, all_sessions) {
            return f;
        }
        if !ended {
            return CaseResult::fail(hash, "session-did-not-stop", format!("a session did not end within 10 s after cancel :: {}", ctx(&sc)));
        }
        let uses_expr = issued.iter().any(|(ai, ci, _)| matches!(addrs[*ai].cmds[*ci].target, Target::SessionExpr(_) | Target::Internal { expr: true } | Target::Parent { expr: true } | Target::Child { expr: true } | Target::OwnLocation));
        let mut r = CaseResult::pass(hash, crossing > 0 || uses_expr);
        r.evaluations = issued.len() as u64 + (bt * bn) as u64;
        let mut cls: BTreeSet<String> = BTreeSet::new();
        for (ai, ci, to) in &issued {
            let a = &addrs[*ai];
            let c = &a.cmds[*ci];
            let form = format!("{:?}", c.target).split(|ch: char| !ch.is_alphanumeric()).next().unwrap_or("").to_string();
            cls.insert(format!("target_{}", form));
            cls.insert(format!("payload_{}", shape_prefix(&c.payload)));
            cls.insert(format!("id_{:?}", c.id));
            let want = receiver(*ai, *ci, *to);
            if a.is_child && want != a.session && want != top_ids[a.top] {
                cls.insert("child_to_non_parent".into());
            }
            if addrs.iter().any(|x| x.session == want && x.is_child) && want != a.session && !matches!(c.target, Target::Child { .. }) {
                cls.insert("to_child_by_session_id".into());
            }
        }
        if sc.nodes.iter().any(|n| n.ecma) {
            cls.insert("ecmascript_router".into());
        }
        if sc.jitter != 0 {
            cls.insert("lock_jitter".into());
        }
        r.classes = cls.into_iter().collect();
        if want_sample {
            r.sample = Some(json!({
                "sessions": addrs.iter().map(|a| json!({"name": a.name, "session": a.session, "child": a.is_child})).collect::<Vec<_>>(),
                "commands": issued.iter().map(|(ai, ci, to)| json!({"by": addrs[*ai].name, "cmd": format!("{:?}", addrs[*ai].cmds[*ci]), "expected_receiver": receiver(*ai, *ci, *to)})).collect::<Vec<_>>(),
                "concurrently_started_sessions": burst_ids,
                "first_document": docs.first(),
            }));
        }
        r
    }
}
