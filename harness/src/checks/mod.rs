use crate::engine::Check;
use std::sync::Arc;

pub mod c10;
pub mod c11;

pub fn by_id(id: &str) -> Option<Arc<dyn Check>> {
    Some(match id {
        "C10" => Arc::new(c10::C10),
        "C11" => Arc::new(c11::C11),
        _ => return None,
    })
}
