use crate::engine::Check;
use std::sync::Arc;

pub mod c01;
pub mod c02;
pub mod c03;
pub mod c04;
pub mod c05;
pub mod c06;
pub mod c07;
pub mod c08;
pub mod c09;
pub mod c10;
pub mod c11;
pub mod c12;
pub mod c13;
pub mod c14;
pub mod c15;
pub mod c16;
pub mod c17;
pub mod c18;
pub mod c19;
pub mod c20;

pub fn by_id(id: &str) -> Option<Arc<dyn Check>> {
    Some(match id {
        "C01" => Arc::new(c01::C01),
        "C02" => Arc::new(c02::C02),
        "C03" => Arc::new(c03::C03),
        "C04" => Arc::new(c04::C04),
        "C05" => Arc::new(c05::C05),
        "C06" => Arc::new(c06::C06),
        "C07" => Arc::new(c07::C07),
        "C08" => Arc::new(c08::C08),
        "C09" => Arc::new(c09::C09),
        "C10" => Arc::new(c10::C10),
        "C11" => Arc::new(c11::C11),
        "C12" => Arc::new(c12::C12),
        "C13" => Arc::new(c13::C13),
        "C14" => Arc::new(c14::C14),
        "C15" => Arc::new(c15::C15),
        "C16" => Arc::new(c16::C16),
        "C17" => Arc::new(c17::C17),
        "C18" => Arc::new(c18::C18),
        "C19" => Arc::new(c19::C19),
        "C20" => Arc::new(c20::C20),
        _ => return None,
    })
}
