//! C01 — the active configuration is always a legal SCXML state configuration.
//! Pure invariant over the implementation's own configuration snapshots and enter/exit stream;
//! the reference interpreter is only used to discard livelocking cases and to classify cases.

use crate::doc::*;
use crate::engine::{hash_str, CaseResult, Check, Phase, Tier};
use crate::refmodel::Rec;
use crate::sess::*;
use std::collections::BTreeSet;

pub struct C01;

/// Legality of a configuration (set of state ids) for a document, from the definition in
/// W3C 3.11 -- independent of any interpreter.
pub fn legal_configuration(doc: &Doc, cfg: &[String]) -> Result<(), String> {
    let flat = flatten(doc);
    let set: BTreeSet<&str> = cfg.iter().map(|s| s.as_str()).collect();
    if set.len() != cfg.len() {
        return Err(format!("state listed twice in {:?}", cfg));
    }
    let idx = |id: &str| flat.iter().position(|f| f.id == id);
    for id in cfg {
        let Some(i) = idx(id) else { return Err(format!("unknown state {} in configuration", id)) };
        if matches!(flat[i].kind, Kind::History { .. }) {
            return Err(format!("history pseudo-state {} is active", id));
        }
        if let Some(p) = flat[i].parent {
            if !set.contains(flat[p].id.as_str()) {
                return Err(format!("{} is active but its parent {} is not", id, flat[p].id));
            }
        }
    }
    let top: Vec<&Flat> = flat.iter().filter(|f| f.parent.is_none()).collect();
    let active_top = top.iter().filter(|f| set.contains(f.id.as_str())).count();
    if active_top != 1 {
        return Err(format!("{} children of <scxml> are active (must be exactly one): {:?}", active_top, cfg));
    }
    for f in flat.iter() {
        if !set.contains(f.id.as_str()) {
            continue;
        }
        let real: Vec<usize> = f.children.iter().cloned().filter(|c| !matches!(flat[*c].kind, Kind::History { .. })).collect();
        let active: Vec<&str> = real.iter().filter(|c| set.contains(flat[**c].id.as_str())).map(|c| flat[*c].id.as_str()).collect();
        match f.kind {
            Kind::State if !real.is_empty() => {
                if active.len() != 1 {
                    return Err(format!("compound state {} has {} active children {:?} (must be exactly one)", f.id, active.len(), active));
                }
            }
            Kind::Parallel => {
                if active.len() != real.len() {
                    return Err(format!("parallel state {} has only {:?} of its {} children active", f.id, active, real.len()));
                }
            }
            _ => {}
        }
    }
    Ok(())
}

/// The one known deviation (known_findings.json): a selected transition dereferences a history
/// state h (directly, or through initial/default targets) while `state` -- a proper descendant of
/// h's parent -- is active and not exited; the W3C algorithm (addAncestorStatesToEnter(s,
/// h.parent)) then prescribes entering `state` again.  Decided from the document alone.
pub fn history_ancestor_pattern(doc: &Doc, selected: &[String], state: &str) -> bool {
    let flat = flatten(doc);
    let idx = |id: &str| flat.iter().position(|f| f.id == id);
    let Some(si) = idx(state) else { return false };
    let mut by_doc: Vec<&State> = Vec::new();
    fn collect<'a>(s: &'a State, out: &mut Vec<&'a State>) {
        out.push(s);
        for c in &s.children {
            collect(c, out);
        }
    }
    for s in &doc.states {
        collect(s, &mut by_doc);
    }
    let is_desc = |mut s: usize, anc: usize| {
        while let Some(p) = flat[s].parent {
            if p == anc {
                return true;
            }
            s = p;
        }
        false
    };
    // states reachable through targets / initial / default history transitions
    let mut work: Vec<usize> = Vec::new();
    for l in selected {
        let mut it = l.split('#');
        let (Some(src), Some(k)) = (it.next(), it.next().and_then(|x| x.parse::<usize>().ok())) else { continue };
        if let Some(i) = idx(src) {
            if let Some(t) = by_doc[i].transitions.get(k) {
                work.extend(t.targets.iter().filter_map(|x| idx(x)));
            }
        }
    }
    let mut seen: BTreeSet<usize> = BTreeSet::new();
    while let Some(x) = work.pop() {
        if !seen.insert(x) {
            continue;
        }
        match &flat[x].kind {
            Kind::History { .. } => {
                let p = flat[x].parent.unwrap();
                if is_desc(si, p) {
                    return true;
                }
                if let Some(t) = by_doc[x].transitions.first() {
                    work.extend(t.targets.iter().filter_map(|y| idx(y)));
                }
                // a recorded value may be any descendant of the parent
                for d in 0..flat.len() {
                    if is_desc(d, p) {
                        work.push(d);
                    }
                }
            }
            Kind::Parallel => work.extend(flat[x].children.iter().cloned()),
            Kind::State => match &by_doc[x].initial {
                Initial::Attr(t) | Initial::Elem(t, _) => work.extend(t.iter().filter_map(|y| idx(y))),
                Initial::Default => {
                    if let Some(c) = flat[x].children.iter().find(|c| !matches!(flat[**c].kind, Kind::History { .. })) {
                        work.push(*c);
                    }
                }
            },
            Kind::Final => {}
        }
        // ancestors of a target are entered as well and may be parallels completing other regions
        if let Some(p) = flat[x].parent {
            if matches!(flat[p].kind, Kind::Parallel) {
                work.push(p);
            }
        }
    }
    false
}

/// Invariants over the observed record stream (no reference model involved in the verdict).
/// `reference` is only used to *classify* one known deviation: where the W3C algorithm itself
/// (addAncestorStatesToEnter up to the parent of a history state) prescribes entering a state
/// that was not exited, the finding gets its own signature and the scan goes on behind it.
pub fn check_stream(doc: &Doc, trace: &[Rec], reference: &[Rec]) -> Result<(usize, usize), (String, String)> {
    let mut running: BTreeSet<String> = BTreeSet::new();
    let mut snapshots = 0usize;
    let mut in_step_entered = false;
    let mut known: Option<(String, String)> = None;
    let mut known_hits = 0usize;
    let mut last_sel: Vec<String> = Vec::new();
    // a prescribed re-entry (known finding) happened in the current microstep
    let mut known_in_step = false;
    for (i, r) in trace.iter().enumerate() {
        match r {
            Rec::Sel(l) => {
                in_step_entered = false;
                known_in_step = false;
                last_sel = l.clone();
            }
            Rec::Enter(s) => {
                in_step_entered = true;
                if !running.insert(s.clone()) {
                    let _ = reference;
                    let prescribed = history_ancestor_pattern(doc, &last_sel, s);
                    let d = format!("record {}: state {} entered while already active", i, s);
                    if prescribed {
                        known_hits += 1;
                        known_in_step = true;
                        if known.is_none() {
                            known = Some(("entered-while-active/prescribed-by-W3C-history-ancestor-rule".into(), d));
                        }
                    } else {
                        return Err(("entered-while-active".into(), d));
                    }
                }
            }
            Rec::Exit(s) => {
                if in_step_entered {
                    return Err(("exit-after-entry".into(), format!("record {}: state {} exited after an entry in the same microstep", i, s)));
                }
                if !running.remove(s) {
                    return Err(("exited-while-inactive".into(), format!("record {}: state {} exited while not active", i, s)));
                }
            }
            Rec::Cfg(c) | Rec::Idle(c, _) => {
                snapshots += 1;
                if let Err(e) = legal_configuration(doc, c) {
                    if known_in_step {
                        // second symptom of the same root cause: the re-entered (still active) ancestors complete
                        // their regions with default children next to the children that are already active.
                        // From here on the stream of this case carries the damage; it is not scanned further.
                        return Err(("illegal-configuration/after-W3C-history-ancestor-re-entry".into(), format!("record {}: {}", i, e)));
                    }
                    return Err(("illegal-configuration".into(), format!("record {}: {}", i, e)));
                }
                let snap: BTreeSet<String> = c.iter().cloned().collect();
                if snap != running {
                    return Err(("configuration-differs-from-enter-exit-stream".into(), format!("record {}: configuration {:?} but enter/exit stream gives {:?}", i, snap, running)));
                }
            }
            _ => {}
        }
    }
    if let Some(k) = known {
        return Err(k);
    }
    Ok((snapshots, known_hits))
}

impl Check for C01 {
    fn id(&self) -> &'static str {
        "C01"
    }
    fn rule(&self) -> String {
        "generated conformant statecharts (<=14 states, depth<=4, parallel/history/final, internal/targetless/multi-target transitions; null, rfsm-expression and ecmascript data models) x generated external event sequences (0..12), pre-queued or fed at idle; \
         legality is decided on the interpreter's own GlobalData.configuration after start-up, after every microstep and at every idle point, plus enter/exit stream invariants. \
         Non-trivial = document has a parallel or history state and at least one microstep changed >= 2 states; distinct = hash of document text + events + mode."
            .into()
    }
    fn assumptions(&self) -> Vec<String> {
        vec!["the implicit <scxml> wrapper state that rFSM keeps in its configuration when <scxml> has no initial attribute is not a state of the document and is filtered out".into()]
    }
    fn phases(&self, tier: Tier) -> Vec<Phase> {
        match tier {
            Tier::Quick => vec![Phase::random("structure-profile", 30_000, 2048).batch(100).watchdog(30_000)],
            Tier::Thorough => vec![Phase::random("structure-profile", 400_000, 2048).batch(200).watchdog(30_000)],
        }
    }
    fn describe(&self, _phase: usize, tape: &[u8]) -> String {
        let c = decode(tape, &Profile::structure(), None);
        format!("events {:?} mode {:?}\n{}", c.events, c.mode, c.xml)
    }
    fn run(&self, _phase: usize, tape: &[u8], want_sample: bool) -> CaseResult {
        let c = decode(tape, &Profile::structure(), None);
        let hash = hash_str(&format!("{}|{:?}|{:?}", c.xml, c.events, c.mode));
        let rr = reference_run(&c.doc, &c.events, c.mode);
        if !rr.completed {
            return CaseResult::discard("reference model exceeds 200 microsteps in a macrostep");
        }
        let real = match real_run(&c.xml, &c.events, c.mode) {
            Ok(r) => r,
            Err(e) => return CaseResult::fail(hash, "reader-rejects-conformant-document", format!("{}\n{}", e, c.xml)),
        };
        if real.timed_out {
            return CaseResult::error(format!("session did not end within the time limit\n{}", c.xml));
        }
        if let Some(p) = &real.panicked {
            return CaseResult::fail(hash, "session-thread-panicked", format!("{}\n{}\nevents {:?}", p, c.xml, c.events));
        }
        match check_stream(&c.doc, &real.trace, &rr.trace) {
            Err((sig, d)) => CaseResult::fail(hash, &sig, format!("{}\nevents {:?} mode {:?}\n{}", d, c.events, c.mode, c.xml)).with_sample(sample_json(&c, &rr.trace, Some(&real.trace))),
            Ok((snaps, _)) => {
                let flat = flatten(&c.doc);
                let shaped = flat.iter().any(|f| matches!(f.kind, Kind::Parallel | Kind::History { .. }));
                let mut r = CaseResult::pass(hash, shaped && rr.stats.multi_state_change);
                r.evaluations = snaps.max(1) as u64;
                r.classes = doc_classes(&c.doc);
                if want_sample {
                    r.sample = Some(sample_json(&c, &rr.trace, Some(&real.trace)));
                }
                r
            }
        }
    }
}
