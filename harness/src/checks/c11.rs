//! C11 — expression parsing and evaluation always terminate with a value or an error.

use crate::engine::{hash_str, last_panic, CaseResult, Check, Phase, Tier};
use crate::expr::*;
use crate::exprrun::*;
use crate::tape::Tape;
use rufsm::datamodel::expression_engine::RFsmExpressionDatamodel;
use rufsm::datamodel::{create_data_arc, Data, Datamodel, GlobalDataArc, SourceCode};
use serde_json::json;
use std::collections::HashMap;

pub struct C11;

const INSERTS: [&str; 40] = [
    "=", "<", ">", "!", "?=", "==", "<=", ">=", "!=", "(", ")", "[", "]", "{", "}", ".", ",", ";", "'", "\"", "\\", "-", "+", "*", "/", ":", "%", "&",
    "|", "e", "E", "0", "9", "1e", ".5", "\\u00e9", "null", "true", " ", "?",
];

const UNI: [&str; 30] = [
    "a", "Z", "_", "0", "7", " ", "\t", "\n", "\u{e9}", "\u{65e5}", "\u{1F600}", "\u{301}", "\u{0}", "\u{7f}", "\u{a0}", "\u{2028}", "'", "\"", "\\", "(", "[", "{", "=", "<", "!", "?",
    ".", "-", ";", ",",
];

const ALIAS_TEMPLATES: [&str; 40] = [
    "A = A",
    "A ?= A",
    "A = A + 1",
    "ARR[ARR]",
    "ARR[ARR[0]]",
    "M.k = M",
    "M.k ?= M",
    "M[M]",
    "ARR + ARR",
    "ARR == ARR",
    "M == M",
    "M + M",
    "[ARR, ARR] == [ARR, ARR]",
    "{'k':M} == {'k':M}",
    "A == A",
    "A + A",
    "A * A",
    "A % A",
    "A / A",
    "A < A",
    "!(A == A)",
    "ARR[0] = ARR",
    "ARR[0] = ARR[0]",
    "ARR[0] ?= ARR[0]",
    "M.k = M.k",
    "M.k ?= M.k",
    "B = B.k",
    "B ?= B.k",
    "ARR = ARR[0]",
    "length(ARR) + length(ARR)",
    "ARR.length()",
    "toString(ARR)",
    "toString(M)",
    "ARR2 == ARR2",
    "ARR2[0] = ARR2[1]",
    "A = B; B = A",
    "ARR2 == ARR",
    "ARR2 + ARR",
    "ARR2[0] == ARR",
    "ARR == ARR2[0]",
];

/// Minimised sources of the defects this check found (each fixed by a "fix:" commit in /repo;
/// see known_findings.json). They are evaluated through every entry point on every run.
const REGRESSION: [&str; 24] = [
    "x =",
    "/[=",
    "a1 <",
    "a1 !",
    "i2 >",
    "a1 = a1",
    "a1 ?= a1",
    "arr[arr]",
    "arr2[arr2]",
    "m1.k = m1",
    "7 % 0",
    "a1 % (a1 - a1)",
    "-9223372036854775808 % -1",
    "abs(-9223372036854775808)",
    "-9223372036854775808",
    "m1.e2",
    "'\\u00e9'",
    "[arr, 1] == arr",
    "arr2 == arr",
    "arr == arr2[0]",
    "m1.k[0]",
    "ro ?= 1",
    "toString(['', 4])",
    "10 - 3 - 2",
];

/// A store with aliasing: several names bound to the same DataArc, containers holding store arcs.
fn alias_store(t: &mut Tape, gd: &GlobalDataArc) {
    let mut g = gd.lock().unwrap();
    let shared = create_data_arc(Data::Integer(t.range(-2, 9)));
    g.data.map.insert("a1".into(), shared.clone());
    g.data.map.insert("a2".into(), shared.clone());
    let elem = create_data_arc(Data::Integer(5));
    let arr = create_data_arc(Data::Array(vec![elem.clone(), elem.clone(), shared.clone()]));
    g.data.map.insert("arr".into(), arr.clone());
    g.data.map.insert("arr_alias".into(), arr.clone());
    g.data.map.insert("arr2".into(), create_data_arc(Data::Array(vec![arr.clone(), arr.clone()])));
    let mut m = HashMap::new();
    m.insert("k".to_string(), shared.clone());
    m.insert("self_elem".to_string(), elem.clone());
    let marc = create_data_arc(Data::Map(m));
    g.data.map.insert("m1".into(), marc.clone());
    g.data.map.insert("m_alias".into(), marc.clone());
    let mut m2 = HashMap::new();
    m2.insert("k".to_string(), marc.clone());
    g.data.map.insert("b1".into(), create_data_arc(Data::Map(m2)));
    g.data.map.insert("i2".into(), create_data_arc(Data::Integer(41)));
    let mut ro = create_data_arc(Data::Integer(3));
    ro.set_readonly(true);
    g.data.map.insert("ro".into(), ro);
}

pub fn mutate(src: &str, t: &mut Tape) -> String {
    let mut chars: Vec<char> = src.chars().collect();
    let n = 1 + t.below(4);
    for _ in 0..n {
        let len = chars.len();
        match t.below(6) {
            0 => {
                // delete a range
                if len > 0 {
                    let a = t.below(len);
                    let l = 1 + t.below(4);
                    let b = (a + l).min(len);
                    chars.drain(a..b);
                }
            }
            1 => {
                // duplicate a range
                if len > 0 {
                    let a = t.below(len);
                    let l = 1 + t.below(6);
                    let b = (a + l).min(len);
                    let seg: Vec<char> = chars[a..b].to_vec();
                    for (i, c) in seg.into_iter().enumerate() {
                        chars.insert(b + i, c);
                    }
                }
            }
            2 => {
                // swap two characters
                if len > 1 {
                    let a = t.below(len);
                    let b = t.below(len);
                    chars.swap(a, b);
                }
            }
            3 => {
                // truncate
                let a = t.below(len + 1);
                chars.truncate(a);
            }
            _ => {
                // insert an interesting token
                let a = t.below(len + 1);
                let ins = *t.pick(&INSERTS);
                for (i, c) in ins.chars().enumerate() {
                    chars.insert(a + i, c);
                }
            }
        }
    }
    chars.into_iter().collect()
}

enum How {
    Fresh,
    DmExecute,
    DmCondition,
    DmAssign,
    DmLocation,
}

impl How {
    fn name(&self) -> &'static str {
        match self {
            How::Fresh => "ExpressionParser::execute",
            How::DmExecute => "Datamodel::execute(x2,cached)",
            How::DmCondition => "Datamodel::execute_condition",
            How::DmAssign => "Datamodel::assign",
            How::DmLocation => "Datamodel::get_by_location",
        }
    }
}

fn evaluate(src: &str, gd: &GlobalDataArc, how: &How) -> Result<String, String> {
    // returns Ok(summary) or Err(panic text)
    let r = std::panic::catch_unwind(std::panic::AssertUnwindSafe(|| match how {
        How::Fresh => format!("{:?}", eval_fresh_nocatch(src, gd)),
        How::DmExecute => {
            let mut dm = RFsmExpressionDatamodel::new(gd.clone());
            let a = dm.execute(&Data::Source(SourceCode::new(src, 99))).map(|d| d.to_string());
            let b = dm.execute(&Data::Source(SourceCode::new(src, 99))).map(|d| d.to_string());
            format!("{:?} {:?}", a, b)
        }
        How::DmCondition => {
            let mut dm = RFsmExpressionDatamodel::new(gd.clone());
            format!("{:?}", dm.execute_condition(&Data::Source(SourceCode::new(src, 98))))
        }
        How::DmAssign => {
            let mut dm = RFsmExpressionDatamodel::new(gd.clone());
            // <assign location=src expr=src>
            format!("{:?}", dm.assign(&Data::Source(SourceCode::new(src, 97)), &Data::Source(SourceCode::new(src, 96))))
        }
        How::DmLocation => {
            let mut dm = RFsmExpressionDatamodel::new(gd.clone());
            format!("{:?}", dm.get_by_location(src).map(|d| d.to_string()))
        }
    }));
    match r {
        Ok(s) => Ok(s),
        Err(_) => Err(last_panic()),
    }
}

fn eval_fresh_nocatch(src: &str, gd: &GlobalDataArc) -> Result<String, String> {
    let mut g = gd.lock().map_err(|_| "poisoned".to_string())?;
    rufsm::expression_engine::parser::ExpressionParser::execute(src.to_string(), &mut g).map(|d| d.to_string())
}

fn panic_sig(p: &str) -> String {
    // first panic line: "[thread] msg @ file:line"
    let first = p.lines().next().unwrap_or("");
    let loc = first.rsplit('@').next().unwrap_or("").trim();
    let loc = loc.rsplit("/src/").next().unwrap_or(loc);
    format!("panic@{}", loc)
}

fn check_one(src: &str, gd: &GlobalDataArc, how: &How) -> Result<String, (String, String)> {
    match evaluate(src, gd, how) {
        Err(p) => return Err((panic_sig(&p), format!("source {:?} panics: {}", src, p.trim()))),
        Ok(summary) => {
            // sentinel: the store must still be usable
            let s = evaluate("i2 + 1", gd, &How::Fresh);
            match s {
                Ok(v) if v.contains("Ok(") => Ok(summary),
                Ok(v) => {
                    // i2 may legitimately have been overwritten by the expression with a non-number
                    if gd.lock().is_err() {
                        Err(("store-poisoned".into(), format!("after {:?} the data store is poisoned", src)))
                    } else {
                        let _ = v;
                        Ok(summary)
                    }
                }
                Err(p) => Err(("store-unusable-after".into(), format!("after {:?} a sentinel evaluation panics: {}", src, p.trim()))),
            }
        }
    }
}

impl Check for C11 {
    fn id(&self) -> &'static str {
        "C11"
    }
    fn rule(&self) -> String {
        "sources: grammar-derived (random whitespace/parentheses), mutated (char deletion/duplication/swap/truncation/token insertion; every prefix of a fraction of the sources), \
         arbitrary Unicode strings, aliasing templates over a store whose names share DataArcs, nesting/chain-length sweeps; each through ExpressionParser::execute or a \
         data-model entry point (execute twice = cache, execute_condition, assign, get_by_location). Non-trivial = the source is rejected by the parser or evaluates to an error, \
         or touches an aliasing pair, or nests deeper than 8; distinct = hash of the source text."
            .into()
    }
    fn assumptions(&self) -> Vec<String> {
        vec!["a case that stalls for the watchdog (5 s, >10^4 x the normal case time) three times alone is taken as non-termination".into()]
    }
    fn hang_is_violation(&self) -> bool {
        true
    }
    fn crash_is_violation(&self) -> bool {
        true
    }
    fn min_nontrivial_pct(&self) -> u32 {
        15
    }
    fn worker_stack(&self) -> Option<usize> {
        Some(2 * 1024 * 1024)
    }
    fn phases(&self, tier: Tier) -> Vec<Phase> {
        let (a, b, c, d) = match tier {
            Tier::Quick => (100_000, 200_000, 100_000, 20_000),
            Tier::Thorough => (600_000, 2_000_000, 1_000_000, 100_000),
        };
        let mut v = vec![
            Phase::random("grammar", a, 768).batch(500).watchdog(5000),
            Phase::random("mutated", b, 768).batch(500).watchdog(5000),
            Phase::random("unicode", c, 96).batch(500).watchdog(5000),
            Phase::random("aliasing", d, 64).batch(100).watchdog(5000),
        ];
        // sweeps: nesting depth / chain length n = 2^k-ish
        let sweep = match tier {
            Tier::Quick => 8 * 12,
            Tier::Thorough => 8 * 18,
        };
        v.push(Phase::indexed("depth-sweeps", sweep, false).batch(1).watchdog(20000));
        v.push(Phase::indexed("regression-sources", (REGRESSION.len() * 5) as u64, true).batch(5).watchdog(5000));
        v
    }
    fn describe(&self, phase: usize, tape: &[u8]) -> String {
        let c = decode(phase, tape);
        let n = c.src.chars().count();
        if n > 160 {
            let head: String = c.src.chars().take(60).collect();
            let tail: String = c.src.chars().skip(n - 30).collect();
            format!("source ({} chars) {:?} ... {:?} via {} [{}]", n, head, tail, c.how.name(), c.class.clone().unwrap_or_default())
        } else {
            format!("source {:?} via {}", c.src, c.how.name())
        }
    }
    fn run(&self, phase: usize, tape: &[u8], want_sample: bool) -> CaseResult {
        let c = decode(phase, tape);
        let gd = c.global();
        let mut evals = 1;
        let res = check_one(&c.src, &gd, &c.how);
        let summary = match res {
            Err((sig, d)) => {
                let short: String = d.chars().take(400).collect();
                return CaseResult::fail(hash_str(&c.src), &sig, short);
            }
            Ok(s) => s,
        };
        let rejected = summary.contains("Err(") || summary.contains("false");
        if c.all_prefixes {
            let chars: Vec<char> = c.src.chars().collect();
            for n in 0..chars.len() {
                let p: String = chars[..n].iter().collect();
                let gd = c.global();
                evals += 1;
                if let Err((sig, d)) = check_one(&p, &gd, &How::Fresh) {
                    return CaseResult::fail(hash_str(&p), &sig, d);
                }
            }
        }
        let deep = c.src.matches(|ch| ch == '(' || ch == '[' || ch == '{').count() > 8;
        let nontrivial = match phase {
            0 | 1 | 2 => rejected || deep,
            3 | 5 => true,
            _ => c.src.len() > 16,
        };
        let mut r = CaseResult::pass(hash_str(&format!("{}|{}", c.src, c.how.name())), nontrivial);
        r.evaluations = evals;
        if rejected {
            r.classes.push("rejected_or_error".into());
        }
        if c.all_prefixes {
            r.classes.push("all_prefixes".into());
        }
        r.classes.push(format!("via_{}", c.how.name()));
        if let Some(k) = c.class {
            r.classes.push(k);
        }
        if want_sample {
            let shown: String = c.src.chars().take(200).collect();
            r.sample = Some(json!({"source": shown, "via": c.how.name(), "outcome": summary.chars().take(120).collect::<String>()}));
        }
        r
    }
}

struct Case {
    src: String,
    how: How,
    store: Option<Store>,
    alias_tape: Vec<u8>,
    all_prefixes: bool,
    class: Option<String>,
}

impl Case {
    fn global(&self) -> GlobalDataArc {
        match &self.store {
            Some(s) => make_global(s),
            None => {
                let gd = make_global(&Store { vars: Default::default() });
                let mut t = Tape::new(&self.alias_tape);
                alias_store(&mut t, &gd);
                gd
            }
        }
    }
}

fn pick_how(t: &mut Tape) -> How {
    match t.below(8) {
        0 => How::DmExecute,
        1 => How::DmCondition,
        2 => How::DmAssign,
        3 => How::DmLocation,
        _ => How::Fresh,
    }
}

fn decode(phase: usize, tape: &[u8]) -> Case {
    let mut t = Tape::new(tape);
    match phase {
        0 | 1 => {
            let store = default_store(&mut t);
            let e = gen_expr(&mut t, &GenCfg { max_size: 25, assignments: true });
            let how = pick_how(&mut t);
            let all_prefixes = phase == 1 && t.chance(10);
            let mut lex = Lex { tape: Some(&mut t), ws_level: 1, paren_pct: 15 };
            let mut src = render(&e, &mut lex);
            if phase == 1 {
                src = mutate(&src, &mut t);
            }
            Case { src, how, store: Some(store), alias_tape: vec![], all_prefixes, class: None }
        }
        2 => {
            let n = t.below(40);
            let mut s = String::new();
            for _ in 0..n {
                let u: &str = UNI[t.below(UNI.len())];
                s.push_str(u);
            }
            let how = pick_how(&mut t);
            let store = default_store(&mut t);
            Case { src: s, how, store: Some(store), alias_tape: vec![], all_prefixes: false, class: None }
        }
        3 => {
            let tpl = *t.pick(&ALIAS_TEMPLATES);
            let a = *t.pick(&["a1", "a2", "i2", "ro"]);
            let b = *t.pick(&["b1", "m1"]);
            let arr = *t.pick(&["arr", "arr_alias"]);
            let m = *t.pick(&["m1", "m_alias", "b1"]);
            let src = tpl.replace("ARR2", "arr2").replace("ARR", arr).replace('A', a).replace('M', m).replace('B', b);
            let how = pick_how(&mut t);
            Case { src, how, store: None, alias_tape: t.rest().to_vec(), all_prefixes: false, class: Some("aliasing".into()) }
        }
        5 => {
            let mut b = [0u8; 8];
            for (i, x) in tape.iter().take(8).enumerate() {
                b[i] = *x;
            }
            let idx = u64::from_le_bytes(b) as usize;
            let src = REGRESSION[(idx / 5) % REGRESSION.len()].to_string();
            let how = match idx % 5 {
                0 => How::Fresh,
                1 => How::DmExecute,
                2 => How::DmCondition,
                3 => How::DmAssign,
                _ => How::DmLocation,
            };
            Case { src, how, store: None, alias_tape: vec![], all_prefixes: false, class: Some("regression".into()) }
        }
        _ => {
            let mut b = [0u8; 8];
            for (i, x) in tape.iter().take(8).enumerate() {
                b[i] = *x;
            }
            let idx = u64::from_le_bytes(b);
            let kind = idx % 8;
            let k = idx / 8;
            let n = 1usize << (k + 1).min(24);
            let src = match kind {
                0 => format!("{}1{}", "(".repeat(n), ")".repeat(n)),
                1 => format!("{}1{}", "[".repeat(n), "]".repeat(n)),
                2 => vec!["1"; n].join(" + "),
                3 => format!("{}true", "!".repeat(n)),
                4 => format!("m1{}", ".k".repeat(n)),
                5 => format!("{}1{}", "{'a':".repeat(n), "}".repeat(n)),
                6 => format!("{}1{}", "abs(".repeat(n), ")".repeat(n)),
                _ => vec!["i2"; n].join(" - "),
            };
            Case { src, how: How::Fresh, store: None, alias_tape: vec![], all_prefixes: false, class: Some(format!("sweep_kind_{}_n_{}", kind, n)) }
        }
    }
}
