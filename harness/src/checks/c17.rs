//! C17 — concurrent sessions never deadlock on the platform's internal locks.
//!
//! Generated scenarios of communicating sessions driven by host threads; the instrumented mutex of
//! the `Verif_Hooks` feature records the lock-order graph, detects wait-for cycles when a thread
//! blocks, injects seeded jitter and can hold a thread between two chosen lock classes
//! (schedule steering).  A scenario that stops making progress *and* has a recorded wait-for cycle
//! is a proven deadlock.

use crate::engine::{hash_str, last_panic, taint_worker, CaseResult, Check, Phase, Tier};
use crate::scen::{MarkLog, Pause, ScenMark};
use crate::tape::Tape;
use rufsm::actions::ActionWrapper;
use rufsm::datamodel::Data;
use rufsm::fsm::{Event, FinishMode, ParamPair, ScxmlSession};
use rufsm::fsm_executor::FsmExecutor;
use serde_json::json;
use std::collections::{BTreeMap, BTreeSet};
use std::sync::{Arc, Barrier, Mutex};
use std::time::{Duration, Instant};

pub struct C17;

pub const LOCK_CLASSES: [&str; 4] = ["ExecutorState", "EventIOProcessor", "GlobalData", "datamodel::Data"];

pub fn short_class(c: &str) -> &'static str {
    for k in LOCK_CLASSES {
        if c.contains(k) {
            return k;
        }
    }
    "other"
}

fn child_doc(kind: usize, ticks: usize) -> String {
    // kind 0: says hello and finishes at once; 1: ticks (delayed self sends) then finishes;
    // 2: ticks and then waits to be cancelled; 3: echoes what it is sent, never finishes
    let fin = match kind {
        0 => r#"<transition target="fin"/>"#.to_string(),
        1 => format!(r#"<transition event="tick" cond="n &gt;= {}" target="fin"/>"#, ticks),
        _ => String::new(),
    };
    format!(
        r##"<scxml xmlns="http://www.w3.org/2005/07/scxml" version="1.0" name="kid" datamodel="rfsm-expression" initial="c">
  <datamodel><data id="n" expr="0"/></datamodel>
  <state id="c">
    <onentry>
      <send event="child.hello" target="#_parent"/>
      <send event="tick" delay="1ms"/>
      <script>mark('kid.start')</script>
    </onentry>
    {fin}
    <transition event="tick" cond="n &lt; {ticks}">
      <assign location="n" expr="n + 1"/>
      <send event="child.tick" target="#_parent"/>
      <send event="tick" delay="1ms"/>
    </transition>
    <transition event="rx"><send event="child.echo" target="#_parent"/></transition>
    <transition event="tx"><send event="child.echo" target="#_parent"/></transition>
  </state>
  <final id="fin"/>
</scxml>"##
    )
}

/// Writes the child document to a file named after its content (several workers may do so at
/// once: write to a private name, then rename) and returns the absolute path.
fn child_file(doc: &str) -> String {
    let dir = std::path::Path::new(&std::env::var("VERIF_DIR").unwrap_or_else(|_| "/verif".into())).join("work").join("c17kids");
    let _ = std::fs::create_dir_all(&dir);
    let path = dir.join(format!("{:016x}.scxml", crate::engine::hash_str(doc)));
    if !path.exists() {
        let tmp = dir.join(format!("{:016x}.{}.tmp", crate::engine::hash_str(doc), std::process::id()));
        let _ = std::fs::write(&tmp, doc);
        let _ = std::fs::rename(&tmp, &path);
    }
    path.to_string_lossy().to_string()
}

fn node_doc(child_kind: usize, ticks: usize, autoforward: bool, pause_us: u64, from_file: bool) -> String {
    let child = child_doc(child_kind, ticks);
    // file-based invoke: <invoke src="..."> takes another path through Fsm::invoke (the document is
    // loaded and parsed on the session thread)
    let (src_attr, child) = if from_file { (format!(" src=\"{}\"", child_file(&child)), String::new()) } else { (String::new(), format!("<content>{}</content>", child)) };
    format!(
        r##"<scxml xmlns="http://www.w3.org/2005/07/scxml" version="1.0" name="node" datamodel="rfsm-expression">
  <datamodel><data id="got" expr="0"/></datamodel>
  <parallel id="top">
    <state id="work" initial="idle">
      <state id="idle">
        <transition event="inv" target="busy"/>
      </state>
      <state id="busy">
        <invoke type="scxml" id="kid" autoforward="{af}"{src}>
          {child}
          <finalize><assign location="got" expr="got + 1"/></finalize>
        </invoke>
        <transition event="leave" target="idle"/>
        <transition event="done.invoke" target="idle"><script>mark('kid.done')</script></transition>
      </state>
    </state>
    <state id="io">
      <transition event="tx">
        <send event="rx" targetexpr="'#_scxml_' + _event.data.to"/>
        <script>mark('tx')</script>
      </transition>
      <transition event="txd">
        <send event="rx" targetexpr="'#_scxml_' + _event.data.to" delayexpr="_event.data.d + 'ms'"/>
        <send event="rxs" delayexpr="_event.data.d + 'ms'"/>
        <script>mark('txd')</script>
      </transition>
      <transition event="txc">
        <send event="rx" target="#_kid"/>
        <script>mark('txc')</script>
      </transition>
      <transition event="rx"><script>pause({pause}); mark('rx')</script></transition>
      <transition event="rxs"><script>mark('rxs')</script></transition>
      <transition event="child"><script>mark('child')</script></transition>
      <transition event="error"><script>mark('err')</script></transition>
    </state>
  </parallel>
</scxml>"##,
        af = if autoforward { "true" } else { "false" },
        child = child,
        src = src_attr,
        pause = pause_us
    )
}

#[derive(Clone, Debug)]
enum Op {
    Start,
    Tx(usize, usize),
    TxDelayed(usize, usize, u32),
    Invoke(usize),
    Leave(usize),
    TxChild(usize),
    HostSend(usize),
    Cancel(usize),
    Sleep(u64),
    Shutdown,
}

impl Op {
    fn kind(&self) -> &'static str {
        match self {
            Op::Start => "start",
            Op::Tx(..) => "tx",
            Op::TxDelayed(..) => "tx_delayed",
            Op::Invoke(_) => "invoke",
            Op::Leave(_) => "leave",
            Op::TxChild(_) => "tx_child",
            Op::HostSend(_) => "host_send",
            Op::Cancel(_) => "cancel",
            Op::Sleep(_) => "sleep",
            Op::Shutdown => "shutdown",
        }
    }
}

#[derive(Debug)]
pub struct Scenario {
    initial: usize,
    threads: Vec<Vec<Op>>,
    child_kind: usize,
    ticks: usize,
    autoforward: bool,
    from_file: bool,
    pause_us: u64,
    jitter: u64,
    steer: Option<(usize, usize, u64)>,
    shutdown: Option<Vec<Op>>,
}

fn decode(tape: &[u8]) -> Scenario {
    let mut t = Tape::new(tape);
    let initial = 2 + t.below(3);
    let nthreads = 2 + t.below(5);
    let child_kind = t.below(4);
    let ticks = 1 + t.below(4);
    let autoforward = t.chance(30);
    let pause_us = if t.chance(25) { t.below(300) as u64 } else { 0 };
    let jitter = if t.chance(75) { 1 + t.u32() as u64 } else { 0 };
    let steer = if t.chance(65) {
        let from = t.below(LOCK_CLASSES.len());
        let to = t.below(LOCK_CLASSES.len());
        let us = [300u64, 1_000, 3_000][t.below(3)];
        Some((from, to, us))
    } else {
        None
    };
    let mut threads = Vec::new();
    for _ in 0..nthreads {
        let n = 4 + t.below(28);
        let mut ops = Vec::new();
        for _ in 0..n {
            let a = t.below(8);
            let b = t.below(8);
            let op = match t.below(20) {
                0..=2 => Op::Start,
                3..=6 => Op::Tx(a, b),
                7..=8 => Op::TxDelayed(a, b, 1 + t.below(6) as u32),
                9..=11 => Op::Invoke(a),
                12..=13 => Op::Leave(a),
                14 => Op::TxChild(a),
                15..=16 => Op::HostSend(a),
                17 => Op::Cancel(a),
                18 => Op::Sleep(t.below(400) as u64),
                _ => Op::Tx(a, b),
            };
            ops.push(op);
        }
        threads.push(ops);
    }
    // final phase: FsmExecutor::shutdown() on one thread while another makes the sessions send
    let shutdown = if t.chance(35) { Some((0..(3 + t.below(12))).map(|_| if t.bool() { Op::Tx(t.below(8), t.below(8)) } else { Op::TxDelayed(t.below(8), t.below(8), 1 + t.below(3) as u32) }).collect::<Vec<Op>>()) } else { None };
    // read last: earlier replay tapes keep their meaning
    let from_file = t.chance(35);
    Scenario { initial, threads, child_kind, ticks, autoforward, from_file, pause_us, jitter, steer, shutdown }
}

struct Node {
    id: u32,
    sender: std::sync::mpsc::Sender<Box<Event>>,
}

struct World {
    exec: FsmExecutor,
    log: Arc<MarkLog>,
    nodes: Mutex<Vec<Node>>,
    sessions: Mutex<Vec<ScxmlSession>>,
    xml: String,
    progress: std::sync::atomic::AtomicU64,
}

impl World {
    fn actions(&self) -> ActionWrapper {
        let mut a = ActionWrapper::new();
        a.add_action("mark", Box::new(ScenMark { log: self.log.clone() }));
        a.add_action("pause", Box::new(Pause));
        a
    }
    fn start(&self) -> Result<(), String> {
        let fsm = crate::runner::parse(&self.xml)?;
        let r = std::panic::catch_unwind(std::panic::AssertUnwindSafe(|| rufsm::fsm::start_fsm_with_data_and_finish_mode(fsm, self.actions(), Box::new(self.exec.clone()), &[], FinishMode::NOTHING)));
        match r {
            Ok(s) => {
                self.nodes.lock().unwrap().push(Node { id: s.session_id, sender: s.sender.clone() });
                self.sessions.lock().unwrap().push(s);
                Ok(())
            }
            Err(_) => Err(format!("start panicked: {}", last_panic())),
        }
    }
    fn node(&self, i: usize) -> Option<(u32, std::sync::mpsc::Sender<Box<Event>>)> {
        let n = self.nodes.lock().unwrap();
        if n.is_empty() {
            return None;
        }
        let k = &n[i % n.len()];
        Some((k.id, k.sender.clone()))
    }
    fn run_op(&self, op: &Op) {
        match op {
            Op::Start => {
                let _ = self.start();
            }
            Op::Tx(a, b) | Op::TxDelayed(a, b, _) => {
                if let (Some((_, s)), Some((to, _))) = (self.node(*a), self.node(*b)) {
                    let mut e = Event::new_simple(if matches!(op, Op::Tx(..)) { "tx" } else { "txd" });
                    let mut p = vec![ParamPair::new("to", &Data::Integer(to as i64))];
                    if let Op::TxDelayed(_, _, d) = op {
                        p.push(ParamPair::new("d", &Data::Integer(*d as i64)));
                    }
                    e.param_values = Some(p);
                    let _ = s.send(Box::new(e));
                }
            }
            Op::Invoke(a) => {
                if let Some((_, s)) = self.node(*a) {
                    let _ = s.send(Box::new(Event::new_simple("inv")));
                }
            }
            Op::Leave(a) => {
                if let Some((_, s)) = self.node(*a) {
                    let _ = s.send(Box::new(Event::new_simple("leave")));
                }
            }
            Op::TxChild(a) => {
                if let Some((_, s)) = self.node(*a) {
                    let _ = s.send(Box::new(Event::new_simple("txc")));
                }
            }
            Op::HostSend(a) => {
                if let Some((id, _)) = self.node(*a) {
                    let _ = self.exec.send_to_session(id, Event::new_simple("rx"));
                }
            }
            Op::Cancel(a) => {
                if let Some((_, s)) = self.node(*a) {
                    let _ = s.send(Box::new(Event::new_simple("error.platform.cancel")));
                }
            }
            Op::Sleep(us) => {
                if *us == 0 {
                    std::thread::yield_now();
                } else {
                    std::thread::sleep(Duration::from_micros(*us));
                }
            }
            Op::Shutdown => {
                let mut e = self.exec.clone();
                e.shutdown();
            }
        }
        self.progress.fetch_add(1, std::sync::atomic::Ordering::SeqCst);
    }
}

/// Names of the live session threads (`fsm_<n>`) of this process.
fn session_threads() -> BTreeSet<String> {
    let mut out = BTreeSet::new();
    if let Ok(rd) = std::fs::read_dir("/proc/self/task") {
        for e in rd.flatten() {
            if let Ok(c) = std::fs::read_to_string(e.path().join("comm")) {
                let c = c.trim();
                if c.starts_with("fsm_") {
                    out.insert(c.to_string());
                }
            }
        }
    }
    out
}

/// Class-level summary of a wait-for cycle description produced by the hook.
pub fn cycle_signature(d: &str) -> String {
    if d.contains("already holds") {
        let c = LOCK_CLASSES.iter().find(|k| d.contains(**k)).copied().unwrap_or("other");
        return format!("self-relock:{}", c);
    }
    // "... waits at FILE:LINE for CLASS (0x..)" per participant
    let mut parts: Vec<String> = Vec::new();
    for seg in d.split("waits at ").skip(1) {
        let site = seg.split(" for ").next().unwrap_or("?");
        let file = site.rsplit('/').next().unwrap_or(site).split(':').next().unwrap_or("?");
        let class = seg.split(" for ").nth(1).map(short_class).unwrap_or("other");
        parts.push(format!("{}@{}", class, file));
    }
    parts.sort();
    format!("wait-for-cycle:{}", parts.join("+"))
}

/// Cycles of length 2 and 3 in the lock-order graph on lock instances whose edges were recorded by
/// at least two different threads (Goodlock-style candidates; evidence only).
fn candidate_cycles(edges: &[rufsm::verif_sync::Edge]) -> Vec<String> {
    let mut out: BTreeSet<String> = BTreeSet::new();
    let mut by_from: BTreeMap<usize, Vec<&rufsm::verif_sync::Edge>> = BTreeMap::new();
    for e in edges {
        if e.from_id != e.to_id {
            by_from.entry(e.from_id).or_default().push(e);
        }
    }
    for e1 in edges {
        if e1.from_id == e1.to_id {
            continue;
        }
        for e2 in by_from.get(&e1.to_id).map(|v| v.as_slice()).unwrap_or(&[]) {
            if e2.to_id == e1.from_id {
                if e1.thread != e2.thread {
                    let mut c = vec![format!("{}->{}", short_class(e1.from_class), short_class(e1.to_class)), format!("{}->{}", short_class(e2.from_class), short_class(e2.to_class))];
                    c.sort();
                    out.insert(c.join(" | "));
                }
                continue;
            }
            for e3 in by_from.get(&e2.to_id).map(|v| v.as_slice()).unwrap_or(&[]) {
                if e3.to_id == e1.from_id && (e1.thread != e2.thread || e2.thread != e3.thread) {
                    let mut c = vec![
                        format!("{}->{}", short_class(e1.from_class), short_class(e1.to_class)),
                        format!("{}->{}", short_class(e2.from_class), short_class(e2.to_class)),
                        format!("{}->{}", short_class(e3.from_class), short_class(e3.to_class)),
                    ];
                    c.sort();
                    out.insert(c.join(" | "));
                }
            }
        }
    }
    out.into_iter().collect()
}

impl Check for C17 {
    fn id(&self) -> &'static str {
        "C17"
    }
    fn rule(&self) -> String {
        "scenarios of 2-4 initial + concurrently started sessions of one executor driven by 2-6 host threads (released by a barrier) with 4-31 operations each: start a session, make session a send to session b (immediately / delayed 1-6 ms together with a delayed self-send), make a session invoke a child, inline <content> or (35 %) src=file (finishing at once / ticking with delayed sends then finishing / ticking then waiting / echoing; optional autoforward; finalize), leave the invoking state (cancels the child), send to the child, FsmExecutor::send_to_session from the host, cancel a session; finally (35 %) FsmExecutor::shutdown on one thread while another makes the sessions send; then all sessions are cancelled. \
         Schedules: OS scheduler + generated sleeps + a generated pause inside macrosteps + seeded jitter before lock acquisitions (75 % of the cases) + steering (65 %): a thread that holds a lock of class A and requests one of class B sleeps 0.3/1/3 ms first, (A,B) generated over executor-state, I/O-processor, global-data, data-value. \
         Oracle: every host thread finishes and every session thread (including invoked children; read from /proc/self/task) ends within the time limit; when not, the wait-for cycle recorded by the instrumented mutex (owner/waiter tables at blocking time) is the proof of the deadlock; a recorded cycle is a violation even when it is noticed before the stall. A stall without a recorded cycle is inconclusive. \
         Non-trivial = at least two threads requested a lock while holding another one and at least two different (held class -> requested class) pairs were observed, and the scenario executed at least 3 kinds of operations; distinct = hash of the scenario (operation lists, steering, jitter seed) and the observed class-level lock-order edges."
            .into()
    }
    fn assumptions(&self) -> Vec<String> {
        vec![
            "schedules are sampled and steered, not enumerated; locks inside the timer crate, std mpsc and tokio are not instrumented".into(),
            "wait-for cycles are detected on the four instrumented lock classes (ExecutorState, Box<dyn EventIOProcessor>, GlobalData, Data values)".into(),
            "a thread is considered stuck when host operations do not finish within 20 s or session threads are still alive 15 s after every session was cancelled".into(),
        ]
    }
    fn phases(&self, tier: Tier) -> Vec<Phase> {
        match tier {
            Tier::Quick => vec![Phase::random("session-scenarios", 1_500, 512).batch(10).watchdog(120_000)],
            Tier::Thorough => vec![Phase::random("session-scenarios", 20_000, 512).batch(10).watchdog(120_000)],
        }
    }
    fn max_workers(&self) -> usize {
        6
    }
    fn min_nontrivial_pct(&self) -> u32 {
        30
    }
    fn hang_is_violation(&self) -> bool {
        false
    }
    fn shrink_budget(&self, _tier: Tier) -> usize {
        40
    }
    fn run(&self, _phase: usize, tape: &[u8], want_sample: bool) -> CaseResult {
        let sc = decode(tape);
        let before = session_threads();
        rufsm::verif_sync::set_tracking(true);
        rufsm::verif_sync::set_jitter(sc.jitter);
        match sc.steer {
            Some((f, t, us)) => rufsm::verif_sync::set_edge_delay(LOCK_CLASSES[f], LOCK_CLASSES[t], us),
            None => rufsm::verif_sync::set_edge_delay("", "", 0),
        }
        #[allow(unused_mut)]
        let mut exec = FsmExecutor::new_without_io_processor();
        // the reader strips leading '/' from a src path and resolves it against the include paths
        exec.include_paths.push(std::path::PathBuf::from("/"));
        let world = Arc::new(World {
            exec,
            log: Arc::new(MarkLog::default()),
            nodes: Mutex::new(Vec::new()),
            sessions: Mutex::new(Vec::new()),
            xml: node_doc(sc.child_kind, sc.ticks, sc.autoforward, sc.pause_us, sc.from_file),
            progress: Default::default(),
        });
        let cleanup = || {
            rufsm::verif_sync::set_edge_delay("", "", 0);
            rufsm::verif_sync::set_jitter(0);
        };
        for _ in 0..sc.initial {
            if let Err(e) = world.start() {
                cleanup();
                rufsm::verif_sync::set_tracking(false);
                return CaseResult::error(e);
            }
        }
        let barrier = Arc::new(Barrier::new(sc.threads.len()));
        let mut handles = Vec::new();
        for (i, ops) in sc.threads.iter().enumerate() {
            let w = world.clone();
            let b = barrier.clone();
            let ops = ops.clone();
            handles.push(std::thread::Builder::new().name(format!("host_{}", i)).spawn(move || {
                b.wait();
                for op in &ops {
                    w.run_op(op);
                }
            }).unwrap());
        }
        let describe = |sc: &Scenario| {
            format!(
                "initial {}, child kind {} ticks {} autoforward {} from_file {}, pause {} us, jitter {}, steer {:?}, shutdown during {:?}, threads {:?}",
                sc.initial,
                sc.child_kind,
                sc.ticks,
                sc.autoforward,
                sc.from_file,
                sc.pause_us,
                sc.jitter,
                sc.steer.map(|(f, t, us)| format!("{}->{} {}us", LOCK_CLASSES[f], LOCK_CLASSES[t], us)),
                sc.shutdown.as_ref().map(|b| b.iter().map(|o| format!("{:?}", o)).collect::<Vec<_>>().join(" ")),
                sc.threads.iter().map(|ops| ops.iter().map(|o| format!("{:?}", o)).collect::<Vec<_>>().join(" ")).collect::<Vec<_>>()
            )
        };
        // 1. host threads finish
        let deadline = Instant::now() + Duration::from_secs(20);
        let mut hosts_done = true;
        for h in &handles {
            while !h.is_finished() {
                if Instant::now() > deadline || !rufsm::verif_sync::deadlocks().is_empty() {
                    hosts_done = false;
                    break;
                }
                std::thread::sleep(Duration::from_micros(500));
            }
        }
        // optional: shut the executor's processors down while the sessions are still sending
        if hosts_done {
            if let Some(burst) = &sc.shutdown {
                let b2 = Arc::new(Barrier::new(2));
                let (w1, w2, ba, bb, burst) = (world.clone(), world.clone(), b2.clone(), b2.clone(), burst.clone());
                let hs = vec![
                    std::thread::Builder::new().name("host_burst".into()).spawn(move || {
                        ba.wait();
                        for op in &burst {
                            w1.run_op(op);
                        }
                    }).unwrap(),
                    std::thread::Builder::new().name("host_shutdown".into()).spawn(move || {
                        bb.wait();
                        w2.run_op(&Op::Shutdown);
                    }).unwrap(),
                ];
                let deadline = Instant::now() + Duration::from_secs(20);
                for h in &hs {
                    while !h.is_finished() {
                        if Instant::now() > deadline || !rufsm::verif_sync::deadlocks().is_empty() {
                            hosts_done = false;
                            break;
                        }
                        std::thread::sleep(Duration::from_micros(500));
                    }
                }
            }
        }
        // let timers and children run for a moment, then stop everything
        let mut sessions_done = false;
        if hosts_done {
            std::thread::sleep(Duration::from_millis(3));
            for n in world.nodes.lock().unwrap().iter() {
                let _ = n.sender.send(Box::new(Event::new_simple("error.platform.cancel")));
            }
            // children are cancelled by their parents; a child that lost its parent entry (C14
            // territory, e.g. a re-used invoke id) is reached through the executor's session table
            let sweep = || {
                let senders: Vec<_> = world.exec.state.lock().map(|st| st.sessions.values().map(|s| s.sender.clone()).collect()).unwrap_or_default();
                for s in senders {
                    let _ = s.send(Box::new(Event::new_simple("error.platform.cancel")));
                }
            };
            let deadline = Instant::now() + Duration::from_secs(15);
            let mut round = 0u32;
            loop {
                round += 1;
                if round % 20 == 2 {
                    sweep();
                }
                let alive: Vec<String> = session_threads().difference(&before).cloned().collect();
                if alive.is_empty() {
                    sessions_done = true;
                    break;
                }
                if Instant::now() > deadline || !rufsm::verif_sync::deadlocks().is_empty() {
                    break;
                }
                std::thread::sleep(Duration::from_millis(1));
            }
        }
        let deadlocks = rufsm::verif_sync::deadlocks();
        let edges = rufsm::verif_sync::edges();
        cleanup();
        let mut class_edges: BTreeSet<String> = BTreeSet::new();
        let mut edge_threads: BTreeSet<String> = BTreeSet::new();
        for e in &edges {
            class_edges.insert(format!("{}->{}", short_class(e.from_class), short_class(e.to_class)));
            edge_threads.insert(e.thread.clone());
        }
        let mut kinds: BTreeSet<&'static str> = sc.threads.iter().flatten().map(|o| o.kind()).collect();
        if sc.shutdown.is_some() {
            kinds.insert("shutdown");
        }
        let hash = hash_str(&format!("{:?}{}", class_edges, describe(&sc)));
        // wait-for cycles that are not self-relocks are proven deadlocks
        let cycles: Vec<&String> = deadlocks.iter().filter(|d| d.starts_with("wait-for cycle")).collect();
        let relocks: Vec<&String> = deadlocks.iter().filter(|d| d.contains("already holds")).collect();
        if !cycles.is_empty() {
            taint_worker();
            let sig = cycle_signature(cycles[0]);
            return CaseResult::fail(hash, &sig, format!("{} (host threads finished: {}, sessions ended: {}) :: {}", cycles[0], hosts_done, sessions_done, describe(&sc)));
        }
        if !relocks.is_empty() {
            taint_worker();
            let sig = cycle_signature(relocks[0]);
            return CaseResult::fail(hash, &sig, format!("{} :: {}", relocks[0], describe(&sc)));
        }
        if !hosts_done || !sessions_done {
            taint_worker();
            rufsm::verif_sync::set_tracking(false);
            let alive: Vec<String> = session_threads().difference(&before).cloned().collect();
            return CaseResult::error(format!("stall without a recorded lock cycle (inconclusive): host threads finished {}, session threads alive {:?} :: {}", hosts_done, alive, describe(&sc)));
        }
        for h in handles {
            let _ = h.join();
        }
        let mut panicked = 0;
        for s in world.sessions.lock().unwrap().iter_mut() {
            if let Some(h) = s.thread.take() {
                if h.join().is_err() {
                    panicked += 1;
                }
            }
        }
        if let Ok(mut st) = world.exec.state.lock() {
            st.sessions.clear();
        }
        rufsm::verif_sync::set_tracking(false);
        let nontrivial = edge_threads.len() >= 2 && class_edges.len() >= 2 && kinds.len() >= 3;
        let mut r = CaseResult::pass(hash, nontrivial);
        r.evaluations = world.progress.load(std::sync::atomic::Ordering::SeqCst);
        for k in &kinds {
            r.classes.push(format!("op_{}", k));
        }
        for e in &class_edges {
            r.classes.push(format!("edge_{}", e));
        }
        for c in candidate_cycles(&edges) {
            r.classes.push(format!("candidate_cycle[{}]", c));
        }
        if sc.jitter != 0 {
            r.classes.push("lock_jitter".into());
        }
        if let Some((f, t, _)) = sc.steer {
            r.classes.push(format!("steer_{}->{}", LOCK_CLASSES[f], LOCK_CLASSES[t]));
        }
        if panicked > 0 {
            r.classes.push("session_thread_panicked".into());
        }
        let log = world.log.snapshot();
        let count = |tag: &str| log.iter().filter(|m| m.tag == tag).count();
        if count("kid.start") > 0 {
            r.classes.push("child_started".into());
            if sc.from_file {
                r.classes.push("child_started_from_file".into());
            }
        }
        if count("kid.done") > 0 {
            r.classes.push("child_done".into());
        }
        if count("rx") > 0 {
            r.classes.push("cross_session_delivery".into());
        }
        if want_sample {
            r.sample = Some(json!({
                "scenario": describe(&sc),
                "sessions": world.nodes.lock().unwrap().len(),
                "lock_order_edges": class_edges,
                "candidate_cycles": candidate_cycles(&edges),
                "marks": {"tx": count("tx"), "txd": count("txd"), "rx": count("rx"), "rxs": count("rxs"), "child": count("child"), "kid.start": count("kid.start"), "kid.done": count("kid.done"), "err": count("err")},
                "session_threads_panicked": panicked,
            }));
        }
        r
    }
}
