//! C12 — no accepted document or event sequence can crash or wedge its session.

use crate::checks::c11::mutate;
use crate::doc::*;
use crate::engine::{hash_str, CaseResult, Check, Phase, Tier};
use crate::expr::{gen_expr, render, GenCfg, Lex};
use crate::refmodel::{Mode, Rec};
use crate::render::render_doc;
use crate::runner::{parse, run_session_events};
use crate::tape::Tape;
use rufsm::fsm::Event;
use serde_json::json;
use std::time::Duration;

pub struct C12;

#[derive(Clone, Debug, PartialEq)]
pub enum Fault {
    UnknownSession,
    MalformedSessionTarget,
    UnknownInvokeTarget,
    ParentWithoutParent,
    UnsupportedType,
    UnsupportedTypeExpr,
    NegativeDelay,
    MalformedDelay,
    DelayWithInternalTarget,
    UnknownTargetScheme,
    InvokeMissingFile,
    InvokeUnsupportedType,
    InvokeInvalidContent,
    InvokeGarbageContent,
    /// invoke arguments whose evaluation fails (the invoking state stays active afterwards)
    InvokeBadNamelist,
    InvokeBadSrcExpr,
    InvokeBadParamExpr,
    InvokeBadTypeExpr,
    InvokeBadContentExpr,
}

pub const FAULTS: [Fault; 19] = [
    Fault::UnknownSession,
    Fault::MalformedSessionTarget,
    Fault::UnknownInvokeTarget,
    Fault::ParentWithoutParent,
    Fault::UnsupportedType,
    Fault::UnsupportedTypeExpr,
    Fault::NegativeDelay,
    Fault::MalformedDelay,
    Fault::DelayWithInternalTarget,
    Fault::UnknownTargetScheme,
    Fault::InvokeMissingFile,
    Fault::InvokeUnsupportedType,
    Fault::InvokeInvalidContent,
    Fault::InvokeGarbageContent,
    Fault::InvokeBadNamelist,
    Fault::InvokeBadSrcExpr,
    Fault::InvokeBadParamExpr,
    Fault::InvokeBadTypeExpr,
    Fault::InvokeBadContentExpr,
];

impl Fault {
    /// error events of which at least one must be dequeued in the macrostep of the fault
    /// (empty = "at most reported as an error event or logged": nothing demanded)
    fn expected(&self) -> &'static [&'static str] {
        match self {
            Fault::UnknownSession | Fault::ParentWithoutParent => &["error.communication"],
            // a target that names no session: unreachable (communication) or invalid (execution)
            Fault::MalformedSessionTarget | Fault::UnknownInvokeTarget => &["error.communication", "error.execution"],
            Fault::UnsupportedType | Fault::UnsupportedTypeExpr | Fault::NegativeDelay | Fault::MalformedDelay | Fault::DelayWithInternalTarget | Fault::UnknownTargetScheme => &["error.execution"],
            _ => &[],
        }
    }
    fn is_invoke(&self) -> bool {
        matches!(
            self,
            Fault::InvokeMissingFile | Fault::InvokeUnsupportedType | Fault::InvokeInvalidContent | Fault::InvokeGarbageContent | Fault::InvokeBadNamelist | Fault::InvokeBadSrcExpr | Fault::InvokeBadParamExpr | Fault::InvokeBadTypeExpr | Fault::InvokeBadContentExpr
        )
    }
    fn send(&self) -> SendSpec {
        let mut s = SendSpec { event: Some("out".into()), ..Default::default() };
        match self {
            Fault::UnknownSession => s.target = Some("#_scxml_424242".into()),
            Fault::MalformedSessionTarget => s.target = Some("#_scxml_abc".into()),
            Fault::UnknownInvokeTarget => s.target = Some("#_nosuchinvoke".into()),
            Fault::ParentWithoutParent => s.target = Some("#_parent".into()),
            Fault::UnsupportedType => s.typ = Some("http://example.org/no-such-processor".into()),
            Fault::UnsupportedTypeExpr => s.typeexpr = Some("'nosuchtype'".into()),
            Fault::NegativeDelay => s.delayexpr = Some("'-5s'".into()),
            Fault::MalformedDelay => s.delayexpr = Some("'soon'".into()),
            Fault::DelayWithInternalTarget => {
                s.delayexpr = Some("'1s'".into());
                s.target = Some("#_internal".into());
            }
            Fault::UnknownTargetScheme => s.target = Some("nowhere:else".into()),
            _ => {}
        }
        s
    }
    fn invoke(&self) -> InvokeSpec {
        let mut i = InvokeSpec { id: Some("inv".into()), ..Default::default() };
        match self {
            Fault::InvokeMissingFile => i.src = Some("no_such_file_anywhere.scxml".into()),
            Fault::InvokeUnsupportedType => {
                i.typ = Some("http://example.org/unsupported-invoke-type".into());
                i.content = Some(ContentSpec::Text("<scxml xmlns=\"http://www.w3.org/2005/07/scxml\" version=\"1.0\"><final id=\"f\"/></scxml>".into()));
            }
            Fault::InvokeInvalidContent => i.content = Some(ContentSpec::Text("<notscxml><state id=\"x\"><unknown/></state></notscxml>".into())),
            Fault::InvokeGarbageContent => i.content = Some(ContentSpec::Text("this is no xml at all".into())),
            Fault::InvokeBadNamelist => {
                i.namelist = vec!["no_such_location_anywhere".into()];
                i.content = Some(ContentSpec::Text("<scxml xmlns=\"http://www.w3.org/2005/07/scxml\" version=\"1.0\"><final id=\"f\"/></scxml>".into()));
            }
            Fault::InvokeBadSrcExpr => i.srcexpr = Some("no_such_variable_anywhere.x".into()),
            Fault::InvokeBadParamExpr => {
                i.params = vec![ParamSpec { name: "p".into(), expr: Some("no_such_variable_anywhere.x".into()), location: None }];
                i.content = Some(ContentSpec::Text("<scxml xmlns=\"http://www.w3.org/2005/07/scxml\" version=\"1.0\"><final id=\"f\"/></scxml>".into()));
            }
            Fault::InvokeBadTypeExpr => {
                i.typeexpr = Some("no_such_variable_anywhere.x".into());
                i.content = Some(ContentSpec::Text("<scxml xmlns=\"http://www.w3.org/2005/07/scxml\" version=\"1.0\"><final id=\"f\"/></scxml>".into()));
            }
            Fault::InvokeBadContentExpr => i.content = Some(ContentSpec::Expr("no_such_variable_anywhere.x".into())),
            _ => {}
        }
        i
    }
}

/// hostile expression source: grammar-derived, mutated, or a known nasty one
fn hostile(t: &mut Tape) -> String {
    match t.below(10) {
        0 => (*t.pick(&["i1 = i1", "arr[arr]", "x =", "/[=", "7 % 0", "abs(-9223372036854775808)", "m1.e2", "[arr, 1] == arr", "((((((((((1))))))))))", "nosuch", "'unterminated", "1 +", "m1.k = m1", "arr[0] = arr", "arr = [arr, arr]", "m1.k = {'k': m1}", "arr.push(arr)", "m1.k.k = m1"])).to_string(),
        1..=4 => {
            let e = gen_expr(t, &GenCfg { max_size: 12, assignments: true });
            render(&e, &mut Lex::canonical())
        }
        _ => {
            let e = gen_expr(t, &GenCfg { max_size: 12, assignments: true });
            let s = render(&e, &mut Lex::canonical());
            mutate(&s, t)
        }
    }
}

fn hostile_block(t: &mut Tape, tag: &str, count: &mut usize) -> Vec<C> {
    let n = 1 + t.below(3);
    let mut v = vec![C::Mark { tag: format!("pre:{}", tag), args: vec![] }];
    for _ in 0..n {
        *count += 1;
        let h = X::Raw(hostile(t));
        v.push(match t.below(10) {
            // a loop body that changes the collection it iterates over
            9 => C::ForEach {
                array: X::Raw((*t.pick(&["arr", "m1", "[arr, arr]", "arr.concat ? arr : arr"])).to_string()),
                item: "it".into(),
                index: Some("ix".into()),
                body: vec![C::Script(X::Raw((*t.pick(&["arr[0] = 5", "arr[ix] = it", "arr = []", "arr[0] = arr", "m1.k = it", "arr[arr.length] = 1", "i1 = i1 + 1"])).to_string()))],
            },
            0 => C::Assign { var: (*t.pick(&["i1", "s1", "arr", "m1.k", "ro", "nosuch"])).to_string(), expr: h },
            1 => C::Log(h),
            2 => C::Script(h),
            3 => C::If { branches: vec![(h, vec![C::Log(X::Raw(hostile(t)))])], els: Some(vec![C::Script(X::Raw(hostile(t)))]) },
            4 => C::ForEach { array: h, item: "it".into(), index: Some("ix".into()), body: vec![C::Log(X::Raw(hostile(t)))] },
            5 => C::Send(Box::new(SendSpec { eventexpr: Some(hostile(t)), target: Some("#_internal".into()), ..Default::default() })),
            6 => C::Send(Box::new(SendSpec { event: Some("ev".into()), targetexpr: Some(hostile(t)), delayexpr: if t.bool() { Some(hostile(t)) } else { None }, ..Default::default() })),
            7 => C::Send(Box::new(SendSpec {
                event: Some("ev".into()),
                target: Some("#_internal".into()),
                namelist: if t.bool() { vec![(*t.pick(&["i1", "nosuch", "arr"])).to_string()] } else { vec![] },
                params: vec![ParamSpec { name: "p".into(), expr: Some(hostile(t)), location: None }],
                ..Default::default()
            })),
            _ => C::Cancel { sendid: None, sendidexpr: Some(hostile(t)) },
        });
    }
    v
}

/// host events with unusual names and payloads
fn odd_host_event(t: &mut Tape) -> Event {
    use rufsm::datamodel::{create_data_arc, Data, SourceCode};
    use rufsm::fsm::ParamPair;
    let mut e = Event::new_simple(*t.pick(&["", ".", "a..b", "*", "done.invoke.nosuch", "done.invoke.", "done.state.m", "error.execution", "trace.all.on", "trace.bogus.on", "trace.states.off", "go", "step"]));
    if t.chance(30) {
        e.invoke_id = Some((*t.pick(&["nosuch", "", "inv"])).to_string());
    }
    if t.chance(30) {
        e.sendid = Some(String::new());
    }
    let odd_data = |t: &mut Tape| -> Data {
        match t.below(6) {
            0 => Data::Error("an error value".into()),
            1 => Data::Source(SourceCode::new(&hostile(t), 0)),
            2 => Data::Array(vec![create_data_arc(Data::Null()), create_data_arc(Data::None())]),
            3 => {
                let mut m = std::collections::HashMap::new();
                m.insert("".to_string(), create_data_arc(Data::Double(f64::NAN)));
                Data::Map(m)
            }
            4 => Data::None(),
            _ => Data::Integer(i64::MIN),
        }
    };
    match t.below(3) {
        0 => e.param_values = Some(vec![ParamPair::new("p", &odd_data(t)), ParamPair::new("", &odd_data(t))]),
        1 => e.content = Some(odd_data(t)),
        _ => {}
    }
    e
}

pub struct OddCase {
    pub doc: Doc,
    pub xml: String,
    pub events: Vec<Event>,
    pub faults: Vec<(String, Fault)>,
    pub hostile_count: usize,
}

pub fn gen_odd_case(tape: &[u8]) -> OddCase {
    let mut t = Tape::new(tape);
    let dm = if t.chance(20) { DM::Ecma } else { DM::Rfsm };
    // the hostile machine: a few states, event-triggered transitions only
    let n_states = 2 + t.below(4);
    let mut hostile_count = 0usize;
    let mut m = State::new("m", Kind::State);
    for i in 0..n_states {
        let mut s = State::new(&format!("h{}", i), Kind::State);
        if t.chance(50) {
            s.onentry.push(hostile_block(&mut t, &format!("en{}", i), &mut hostile_count));
        }
        if t.chance(30) {
            s.onexit.push(hostile_block(&mut t, &format!("ex{}", i), &mut hostile_count));
        }
        if t.chance(25) {
            s.data.push(DataDecl { id: format!("hd{}", i), expr: Some(X::Raw(hostile(&mut t))) });
        }
        let nt = 1 + t.below(2);
        for k in 0..nt {
            let target = format!("h{}", t.below(n_states));
            let cond = if t.chance(40) {
                hostile_count += 1;
                Some(X::Raw(hostile(&mut t)))
            } else {
                None
            };
            let content = if t.chance(50) { hostile_block(&mut t, &format!("tr{}_{}", i, k), &mut hostile_count) } else { vec![] };
            s.transitions.push(Trans { events: vec![(*t.pick(&["go", "go.x", "step"])).to_string()], cond, targets: vec![target], internal: t.chance(20), content });
        }
        m.children.push(s);
    }
    // platform faults: one transition per fault (send) or a state carrying a broken invoke
    let nf = t.below(4);
    let mut faults: Vec<(String, Fault)> = Vec::new();
    let mut fstate = State::new("faults", Kind::State);
    let mut idle = State::new("fidle", Kind::State);
    for k in 0..nf {
        let f = FAULTS[t.below(FAULTS.len())].clone();
        let ev = format!("f{}", k);
        if f.is_invoke() {
            // entering the state starts the (broken) invoke at the end of the macrostep
            let mut st = State::new(&format!("finv{}", k), Kind::State);
            st.invokes.push(f.invoke());
            st.transitions.push(Trans { events: vec!["back".into()], cond: None, targets: vec!["fidle".into()], internal: false, content: vec![] });
            idle.transitions.push(Trans { events: vec![ev.clone()], cond: None, targets: vec![format!("finv{}", k)], internal: false, content: vec![] });
            fstate.children.push(st);
        } else {
            idle.transitions.push(Trans { events: vec![ev.clone()], cond: None, targets: vec![], internal: false, content: vec![C::Mark { tag: format!("fault{}", k), args: vec![] }, C::Send(Box::new(f.send()))] });
        }
        faults.push((ev, f));
    }
    fstate.children.insert(0, idle);
    let mut pong = State::new("pong", Kind::State);
    pong.transitions.push(Trans { events: vec!["__ping".into()], cond: None, targets: vec![], internal: false, content: vec![C::Mark { tag: "pong".into(), args: vec![] }] });
    let mut w = State::new("w", Kind::Parallel);
    w.children = vec![m, fstate, pong];
    let mut doc = Doc::new(dm, vec![w]);
    doc.name = "odd".into();
    for (n, x) in [("i1", "1"), ("i2", "2"), ("d1", "0.5"), ("s1", "'s'"), ("b1", "true"), ("arr", "[1,2,3]"), ("ix", "0"), ("it", "0")] {
        doc.data.push(DataDecl { id: n.into(), expr: Some(X::Raw(x.into())) });
    }
    doc.data.push(DataDecl { id: "m1".into(), expr: Some(X::Raw(if dm == DM::Ecma { "({k: 1})".into() } else { "{'k':1}".into() })) });
    // events: normal ones, faults (each followed by 'back' for invokes), pings
    let mut events: Vec<Event> = Vec::new();
    let n = t.below(8);
    let mut fi = 0;
    for _ in 0..n {
        match t.below(4) {
            0 if fi < faults.len() => {
                events.push(Event::new_simple(&faults[fi].0));
                if faults[fi].1.is_invoke() {
                    events.push(Event::new_simple("back"));
                }
                fi += 1;
            }
            1 => events.push(odd_host_event(&mut t)),
            _ => events.push(Event::new_simple(*t.pick(&["go", "go.x", "step", "unknown.event"]))),
        }
    }
    while fi < faults.len() {
        events.push(Event::new_simple(&faults[fi].0));
        if faults[fi].1.is_invoke() {
            events.push(Event::new_simple("back"));
        }
        fi += 1;
    }
    events.push(Event::new_simple("__ping"));
    let xml = render_doc(&doc);
    OddCase { doc, xml, events, faults, hostile_count }
}

impl Check for C12 {
    fn id(&self) -> &'static str {
        "C12"
    }
    fn rule(&self) -> String {
        "odd profile: structurally conformant documents whose content is hostile: the expression pool of C11 (grammar-derived, mutated, known nasty sources) in conds, <data>, assign, log, script, if, foreach, send eventexpr/targetexpr/delayexpr/namelist/param, cancel sendidexpr; \
         plus 0-3 platform faults per case (send to an unknown session, malformed session target, unknown invoke id, #_parent without parent, unsupported type / typeexpr, negative / malformed delay, delay with #_internal, unknown target scheme, invoke of a missing file / unsupported type / invalid inline content / garbage content / with a failing namelist, srcexpr, typeexpr, param expr or content expr while the invoking state stays active), each triggered by its own event; a ping region answers __ping. \
         Oracle: the session thread does not panic, answers the final __ping, ends on cancel within the time limit, and each send fault's macrostep dequeues the error event the Recommendation assigns (error.execution / error.communication; extra error events tolerated). \
         Non-trivial = >= 1 platform fault or >= 2 hostile expressions in the document; distinct = hash of document + events."
            .into()
    }
    fn assumptions(&self) -> Vec<String> {
        vec![
            "the generated machines contain no eventless transitions and no transition matching error.* or *, so that a session that does not come back is wedged by the platform, not by its own document".into(),
            "a session that does not end within 8 s (normal case: ~2 ms) is reported as wedged after the case was confirmed alone".into(),
        ]
    }
    fn phases(&self, tier: Tier) -> Vec<Phase> {
        match tier {
            Tier::Quick => vec![Phase::random("odd-profile", 20_000, 2048).batch(50).watchdog(40_000)],
            Tier::Thorough => vec![Phase::random("odd-profile", 300_000, 2048).batch(100).watchdog(40_000)],
        }
    }
    fn hang_is_violation(&self) -> bool {
        true
    }
    fn worker_init(&self) {
        crate::runner::install_child_tracer_factory();
    }
    fn crash_is_violation(&self) -> bool {
        true
    }
    fn describe(&self, _phase: usize, tape: &[u8]) -> String {
        let c = gen_odd_case(tape);
        format!("events {:?} faults {:?}\n{}", c.events.iter().map(|e| e.name.clone()).collect::<Vec<_>>(), c.faults, c.xml)
    }
    fn run(&self, _phase: usize, tape: &[u8], want_sample: bool) -> CaseResult {
        let c = gen_odd_case(tape);
        let names: Vec<String> = c.events.iter().map(|e| e.name.clone()).collect();
        let hash = hash_str(&format!("{}|{:?}", c.xml, names));
        let fsm = match parse(&c.xml) {
            Ok(f) => f,
            Err(e) => {
                // the reader may reject a document (that is "not accepted"), but it must not panic on well-formed input
                if e.contains("panicked") {
                    return CaseResult::fail(hash, "reader-panics", format!("{}\n{}", e, c.xml));
                }
                return CaseResult::discard("reader rejects the document");
            }
        };
        // pre-queued: events from an unknown invoke id are dropped inside the dequeue loop without a new idle point,
        // so feeding at idle would starve the session (a harness artefact, not a wedged session)
        let real = run_session_events(fsm, &c.events, Mode::PreQueued, Duration::from_secs(8));
        if let Some(p) = &real.panicked {
            let first = p.lines().next().unwrap_or("");
            let loc = first.rsplit('@').next().unwrap_or("").trim();
            let loc = loc.rsplit("/src/").next().unwrap_or(loc);
            return CaseResult::fail(hash, &format!("session-thread-panicked@{}", loc), format!("{}\nevents {:?} faults {:?}\n{}", p.trim(), names, c.faults, c.xml));
        }
        // Invoked children of this case: wait until they have left interpret() (they are cancelled when the
        // parent ends). One that never leaves it has panicked (recorded by the panic hook) or is wedged.
        let still = crate::runner::wait_children(Duration::from_millis(150));
        let others = crate::engine::last_panic();
        // reader panics are caught by the executor (fix 59f798b) and are no thread panics
        if let Some(first) = others.lines().find(|l| l.starts_with("[fsm_") && !l.contains("scxml_reader.rs") && still > 0) {
            let loc = first.rsplit('@').next().unwrap_or("").trim();
            let loc = loc.rsplit("/src/").next().unwrap_or(loc);
            return CaseResult::fail(hash, &format!("child-session-thread-panicked@{}", loc), format!("{}\nevents {:?} faults {:?}\n{}", first, names, c.faults, c.xml));
        }
        if real.timed_out {
            return CaseResult::fail(hash, "session-wedged", format!("the session did not end within 8 s after events {:?} and cancel; faults {:?}\n{}", names, c.faults, c.xml));
        }
        // ping answered?
        let ping_pos = real.trace.iter().position(|r| matches!(r, Rec::ExtDeq(n) if n == "__ping"));
        let Some(pp) = ping_pos else {
            return CaseResult::fail(hash, "ping-not-processed", format!("__ping was never dequeued; events {:?}\n{}", names, c.xml));
        };
        if !real.trace[pp..].iter().any(|r| matches!(r, Rec::Mark(t, _) if t == "pong")) {
            return CaseResult::fail(hash, "ping-not-answered", format!("__ping dequeued but its handler did not run; events {:?}\n{}", names, c.xml));
        }
        // error event per send fault
        for (ev, f) in &c.faults {
            let exp = f.expected();
            if exp.is_empty() {
                continue;
            }
            if let Some(start) = real.trace.iter().position(|r| matches!(r, Rec::ExtDeq(n) if n == ev)) {
                let end = real.trace[start + 1..].iter().position(|r| matches!(r, Rec::ExtDeq(_))).map(|x| x + start + 1).unwrap_or(real.trace.len());
                let got: Vec<&String> = real.trace[start..end].iter().filter_map(|r| if let Rec::IntDeq(n) = r { Some(n) } else { None }).collect();
                if !got.iter().any(|g| exp.contains(&g.as_str())) {
                    return CaseResult::fail(hash, &format!("fault-not-reported:{:?}", f), format!("{:?}: expected one of {:?} on the internal queue in that macrostep, dequeued {:?}\n{}", f, exp, got, c.xml));
                }
            }
        }
        let mut r = CaseResult::pass(hash, !c.faults.is_empty() || c.hostile_count >= 2);
        r.classes.push(format!("dm_{}", c.doc.dm.name()));
        for (_, f) in &c.faults {
            r.classes.push(format!("fault_{:?}", f));
        }
        if want_sample {
            r.sample = Some(json!({"scxml": c.xml, "events": names, "faults": format!("{:?}", c.faults), "trace_head": real.trace.iter().take(40).map(|x| format!("{:?}", x)).collect::<Vec<_>>()}));
        }
        r
    }
}
