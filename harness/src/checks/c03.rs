//! C03 — run-to-completion: internal work finishes before the next external event.

use crate::doc::*;
use crate::engine::{CaseResult, Check, Phase, Tier};
use crate::refmodel::{Mode, Rec, CANCEL};
use crate::runner::diff_traces;
use crate::sess::*;

pub struct C03;

fn has_self_send(doc: &Doc) -> bool {
    fn in_block(b: &[C]) -> bool {
        b.iter().any(|c| match c {
            C::SendSelf(_) => true,
            C::If { branches, els } => branches.iter().any(|(_, b)| in_block(b)) || els.as_ref().map(|b| in_block(b)).unwrap_or(false),
            C::ForEach { body, .. } => in_block(body),
            _ => false,
        })
    }
    let mut found = false;
    for_each_state(doc, &mut |s| {
        for b in s.onentry.iter().chain(s.onexit.iter()) {
            found |= in_block(b);
        }
        for t in &s.transitions {
            found |= in_block(&t.content);
        }
        if let Initial::Elem(_, c) = &s.initial {
            found |= in_block(c);
        }
    });
    found
}

/// Reference-free invariants over the observed stream.
fn stream_invariants(c: &Case, trace: &[Rec]) -> Result<(), (String, String)> {
    // (1) host events are dequeued in the order sent, each at most once (all of them unless the
    //     session ended before); only self-sent events may be interleaved
    let ext: Vec<&String> = trace.iter().filter_map(|r| if let Rec::ExtDeq(n) = r { Some(n) } else { None }).collect();
    let selfsend = has_self_send(&c.doc);
    let mut host: Vec<String> = c.events.clone();
    host.push(CANCEL.to_string());
    let ended_by_cancel = ext.last().map(|n| n.as_str() == CANCEL).unwrap_or(false);
    if !selfsend {
        let n = ext.len();
        if n > host.len() || ext.iter().zip(host.iter()).any(|(a, b)| *a != b) {
            return Err(("external-order".into(), format!("external events dequeued {:?}, sent {:?}", ext, host)));
        }
        if ended_by_cancel && n != host.len() {
            return Err(("external-lost".into(), format!("session cancelled after {:?} but {:?} were sent", ext, host)));
        }
    } else {
        // host events must appear as a subsequence in send order
        let mut k = 0;
        for e in &ext {
            if k < host.len() && **e == host[k] {
                k += 1;
            }
        }
        if ended_by_cancel && c.mode == Mode::PreQueued && k != host.len() {
            return Err(("external-order".into(), format!("host events {:?} are not a subsequence of dequeued {:?}", host, ext)));
        }
    }
    // (2) between two external dequeues the idle point is reached exactly once, directly before the dequeue;
    // (3) an external event that enables nothing changes neither configuration nor history
    let mut last_idle: Option<(&Vec<String>, &Vec<(String, Vec<String>)>)> = None;
    let mut i = 0;
    while i < trace.len() {
        if let Rec::Idle(cfg, hist) = &trace[i] {
            match trace.get(i + 1) {
                Some(Rec::ExtDeq(_)) | None => {}
                other => return Err(("idle-not-followed-by-dequeue".into(), format!("record {}: idle point followed by {:?}", i, other))),
            }
            if let Some((pc, ph)) = last_idle {
                // previous idle -> ExtDeq -> (nothing) -> this idle ?
                if i >= 2 && matches!(trace[i - 1], Rec::ExtDeq(_)) && matches!(trace[i - 2], Rec::Idle(..)) && (pc != cfg || ph != hist) {
                    return Err(("unmatched-event-changed-state".into(), format!("record {}: event {:?} enabled no transition but configuration/history changed from {:?}/{:?} to {:?}/{:?}", i, trace[i - 1], pc, ph, cfg, hist)));
                }
            }
            last_idle = Some((cfg, hist));
        }
        if let Rec::ExtDeq(_) = &trace[i] {
            if i == 0 || !matches!(trace[i - 1], Rec::Idle(..)) {
                return Err(("dequeue-without-idle".into(), format!("record {}: external event dequeued while the macrostep was not complete (previous record {:?})", i, trace.get(i.wrapping_sub(1)))));
            }
        }
        i += 1;
    }
    Ok(())
}

impl Check for C03 {
    fn id(&self) -> &'static str {
        "C03"
    }
    fn rule(&self) -> String {
        "queues profile: statecharts with <raise>, <send target=#_internal>, targetless self-<send>, counter-guarded eventless transitions and done.state handlers x generated external event sequences, pre-queued (later events already waiting while internal ones are produced) or fed at idle; \
         oracle: trace equality with the reference interpreter + reference-free stream invariants (external order/exactly-once, idle exactly before each external dequeue, unmatched event changes nothing) + pre-queued == fed-at-idle when no self-send exists. \
         Non-trivial = an internal event was generated while a later external event was already queued, or a macrostep contained both an eventless microstep and an internal event; distinct = hash of document + events + mode."
            .into()
    }
    fn assumptions(&self) -> Vec<String> {
        vec!["oracle = reference interpreter (harness/src/refmodel.rs) incl. its model of the external queue in both feeding modes".into()]
    }
    fn phases(&self, tier: Tier) -> Vec<Phase> {
        match tier {
            Tier::Quick => vec![Phase::random("queues-profile", 20_000, 2048).batch(100).watchdog(30_000), Phase::random("data-guard-profile", 20_000, 2048).batch(100).watchdog(30_000)],
            Tier::Thorough => vec![Phase::random("queues-profile", 250_000, 2048).batch(200).watchdog(30_000), Phase::random("data-guard-profile", 250_000, 2048).batch(200).watchdog(30_000)],
        }
    }
    fn describe(&self, phase: usize, tape: &[u8]) -> String {
        let c = decode(tape, &if phase == 0 { Profile::queues() } else { Profile::queues_data() }, None);
        format!("events {:?} mode {:?}\n{}", c.events, c.mode, c.xml)
    }
    fn min_nontrivial_pct(&self) -> u32 {
        15
    }
    fn run(&self, phase: usize, tape: &[u8], want_sample: bool) -> CaseResult {
        let c = decode(tape, &if phase == 0 { Profile::queues() } else { Profile::queues_data() }, None);
        compare_case(
            &c,
            want_sample,
            &|st, _| st.internal_while_external_waiting || st.eventless_and_internal_in_one_macrostep,
            &|c, _rr, first| {
                stream_invariants(c, &first.trace)?;
                if !has_self_send(&c.doc) {
                    let other = if c.mode == Mode::PreQueued { Mode::FedAtIdle } else { Mode::PreQueued };
                    match real_run(&c.xml, &c.events, other) {
                        Ok(second) => {
                            if let Some(d) = diff_traces(&first.trace, &second.trace) {
                                return Err(("prequeued-differs-from-fed-at-idle".to_string(), format!("{:?} vs {:?}: {}\n{}", c.mode, other, d, c.xml)));
                            }
                        }
                        Err(e) => return Err(("reader-nondeterministic".to_string(), e)),
                    }
                }
                Ok(())
            },
        )
    }
}
