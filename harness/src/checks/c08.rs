//! C08 — executable content runs in document order with SCXML error semantics.

use crate::contentgen::*;
use crate::doc::*;
use crate::engine::{hash_str, CaseResult, Check, Phase, Tier};
use crate::refmodel::{Interp, Mode, Model, Rec};
use crate::render::render_doc;
use crate::runner::diff_traces;
use crate::sess::*;
use crate::tape::Tape;

pub struct C08;

pub struct ContentCase {
    pub case: Case,
    pub injected: Vec<InjectKind>,
    pub depth: usize,
    pub elseif_or_foreach: bool,
    pub error_not_last: bool,
}

pub fn content_profile() -> Profile {
    let mut p = Profile::structure();
    p.max_states = 8;
    p.max_depth = 3;
    p.marks = false;
    p.pct_wildcard = 0;
    p.pct_raise = 0;
    p.pct_send_internal = 0;
    p.pct_send_self = 0;
    p.dm_weights = [0, 75, 25];
    p.pct_history = 25;
    p.pct_initial_elem = 35;
    p.max_events = 8;
    p
}

pub fn gen_content_case(tape: &[u8]) -> ContentCase {
    let mut t = Tape::new(tape);
    let p = content_profile();
    let mut doc = gen_doc(&mut t, &p);
    doc.late_binding = false;
    doc.data.push(DataDecl { id: "w".into(), expr: Some(X::Int(0)) });
    let flat = flatten(&doc);
    let states: Vec<String> = flat.iter().filter(|f| !matches!(f.kind, Kind::History { .. })).map(|f| f.id.clone()).collect();
    let mut injected = Vec::new();
    let mut depth = 0;
    let mut eof = false;
    let mut enl = false;
    let inject_pct = 22;
    fn walk(s: &mut State, t: &mut Tape, states: &[String], acc: &mut (Vec<InjectKind>, usize, bool, bool), inject_pct: u32) {
        let mut block = |prefix: String, t: &mut Tape, acc: &mut (Vec<InjectKind>, usize, bool, bool)| -> Vec<C> {
            let mut ctx = Ctx::new(&prefix);
            let inj = t.chance(inject_pct);
            let b = gen_exec_block(t, &mut ctx, 0, states, inj);
            acc.0.extend(ctx.injected.iter().cloned());
            acc.1 = acc.1.max(ctx.max_depth_seen);
            acc.2 |= ctx.has_elseif_or_foreach;
            acc.3 |= ctx.error_not_last;
            b
        };
        if s.is_history() {
            if t.chance(60) {
                let b = block(format!("hist:{}", s.id), t, acc);
                s.transitions[0].content = b;
            }
        } else {
            if t.chance(55) {
                let b = block(format!("en:{}", s.id), t, acc);
                s.onentry = vec![b];
                if t.chance(35) {
                    // a second <onentry> block: an error in the first one must not touch it
                    let b2 = block(format!("en2:{}", s.id), t, acc);
                    s.onentry.push(b2);
                }
            } else {
                s.onentry = vec![vec![C::Mark { tag: format!("en:{}", s.id), args: vec![] }]];
            }
            if t.chance(35) {
                let b = block(format!("ex:{}", s.id), t, acc);
                s.onexit = vec![b];
                if t.chance(35) {
                    let b2 = block(format!("ex2:{}", s.id), t, acc);
                    s.onexit.push(b2);
                }
            } else {
                s.onexit = vec![vec![C::Mark { tag: format!("ex:{}", s.id), args: vec![] }]];
            }
            let id = s.id.clone();
            for (k, tr) in s.transitions.iter_mut().enumerate() {
                if t.chance(55) {
                    let b = block(format!("tr:{}#{}", id, k), t, acc);
                    tr.content.extend(b);
                } else {
                    tr.content.push(C::Mark { tag: format!("tr:{}#{}", id, k), args: vec![] });
                }
            }
            if let Initial::Elem(_, c) = &mut s.initial {
                if t.chance(60) {
                    let b = block(format!("init:{}", id), t, acc);
                    *c = b;
                }
            }
        }
        for c in s.children.iter_mut() {
            walk(c, t, states, acc, inject_pct);
        }
    }
    let mut acc = (Vec::new(), 0usize, false, false);
    for s in doc.states.iter_mut() {
        walk(s, &mut t, &states, &mut acc, inject_pct);
    }
    injected.extend(acc.0);
    depth = depth.max(acc.1);
    eof |= acc.2;
    enl |= acc.3;
    let events = gen_events(&mut t, &p, &doc);
    let mode = if t.bool() { Mode::FedAtIdle } else { Mode::PreQueued };
    let xml = render_doc(&doc);
    ContentCase { case: Case { doc, events, mode, xml }, injected, depth, elseif_or_foreach: eof, error_not_last: enl }
}

pub fn strip_errors(t: &[Rec]) -> Vec<Rec> {
    t.iter().filter(|r| !matches!(r, Rec::IntDeq(n) if n.starts_with("error."))).cloned().collect()
}

/// per macrostep (split at external dequeues): was an error.* event dequeued?
pub fn error_flags(t: &[Rec]) -> Vec<bool> {
    let mut v = vec![false];
    for r in t {
        match r {
            Rec::ExtDeq(_) => v.push(false),
            Rec::IntDeq(n) if n == "error.execution" => *v.last_mut().unwrap() = true,
            _ => {}
        }
    }
    v
}

impl Check for C08 {
    fn id(&self) -> &'static str {
        "C08"
    }
    fn rule(&self) -> String {
        "content profile over rfsm-expression (75%) and ecmascript (25%): nested if/elseif/else, foreach (item/index), assign, raise, log, script, <send> to #_internal inside onentry, onexit, transition, <initial> and history-default bodies, an observation mark between all elements; \
         at most one injected failing evaluation per block (if / elseif condition, assign expr, assign to an undeclared location, log expr, script, foreach array error / not a collection, send eventexpr / targetexpr / delayexpr / namelist; or such a failing element nested in an executed then / else / elseif branch or foreach body, where it must also abort the rest of the enclosing blocks). \
         Oracle: reference content interpreter. The trace with error events projected out must equal the reference trace (either allowed continuation of an erroring if-condition), and a macrostep dequeues error.execution iff the reference raised one there. \
         Non-trivial = nesting depth >= 2 with an elseif or foreach, or an injected error that is not the last element of its block; distinct = hash of document + events + mode."
            .into()
    }
    fn assumptions(&self) -> Vec<String> {
        vec![
            "no transition of the generated documents matches error.* events, so the number of error.execution events per failure (>= 1) does not influence behaviour".into(),
            "injected sources fail in both data models: undefined variable, syntax error, undefined function, member of undefined object".into(),
        ]
    }
    fn phases(&self, tier: Tier) -> Vec<Phase> {
        match tier {
            Tier::Quick => vec![Phase::random("content-profile", 20_000, 3072).batch(100).watchdog(30_000)],
            Tier::Thorough => vec![Phase::random("content-profile", 300_000, 3072).batch(200).watchdog(30_000)],
        }
    }
    fn describe(&self, _phase: usize, tape: &[u8]) -> String {
        let c = gen_content_case(tape);
        format!("events {:?} mode {:?} injected {:?}\n{}", c.case.events, c.case.mode, c.injected, c.case.xml)
    }
    fn min_nontrivial_pct(&self) -> u32 {
        20
    }
    fn run(&self, _phase: usize, tape: &[u8], want_sample: bool) -> CaseResult {
        let cc = gen_content_case(tape);
        let c = &cc.case;
        let hash = hash_str(&format!("{}|{:?}|{:?}", c.xml, c.events, c.mode));
        let m = Model::build(&c.doc);
        let mut variants: Vec<(Vec<Rec>, usize)> = Vec::new();
        for aborts in [false, true] {
            let mut it = Interp::new(&m);
            it.if_error_aborts = aborts;
            if !it.run(&c.events, c.mode) {
                return CaseResult::discard("reference model exceeds 200 microsteps in a macrostep");
            }
            variants.push((it.trace.clone(), it.stats.errors));
        }
        let real = match real_run(&c.xml, &c.events, c.mode) {
            Ok(r) => r,
            Err(e) => return CaseResult::fail(hash, "reader-rejects-conformant-document", format!("{}\n{}", e, c.xml)),
        };
        if real.timed_out {
            return CaseResult::error(format!("session did not end within the time limit\n{}", c.xml));
        }
        if let Some(p) = &real.panicked {
            return CaseResult::fail(hash, "session-thread-panicked", format!("{}\n{}\nevents {:?}", p, c.xml, c.events));
        }
        let real_stripped = strip_errors(&real.trace);
        let real_flags = error_flags(&real.trace);
        let mut best: Option<(String, String)> = None;
        let mut ok = false;
        for (rt, _errs) in &variants {
            let ref_stripped = strip_errors(rt);
            match diff_traces(&ref_stripped, &real_stripped) {
                None => {
                    let rf = error_flags(rt);
                    if rf == real_flags {
                        ok = true;
                        break;
                    } else if best.is_none() {
                        let i = rf.iter().zip(real_flags.iter()).position(|(a, b)| a != b).unwrap_or(0);
                        best = Some((
                            if rf.get(i) == Some(&true) { "error-execution-missing".to_string() } else { "error-execution-unexpected".to_string() },
                            format!("macrostep {} (0 = start-up): reference raised error.execution = {:?}, observed = {:?}; injected {:?}", i, rf.get(i), real_flags.get(i), cc.injected),
                        ));
                    }
                }
                Some(d) => {
                    if best.is_none() {
                        best = Some((format!("content-{}", classify_diff(&ref_stripped, &real_stripped)), format!("{} injected {:?}", d, cc.injected)));
                    }
                }
            }
        }
        if !ok {
            let (sig, d) = best.unwrap();
            return CaseResult::fail(hash, &sig, format!("{}\nevents {:?} mode {:?}\n{}", d, c.events, c.mode, c.xml)).with_sample(sample_json(c, &variants[0].0, Some(&real.trace)));
        }
        let nontrivial = (cc.depth >= 2 && cc.elseif_or_foreach) || cc.error_not_last;
        let mut r = CaseResult::pass(hash, nontrivial);
        r.classes.push(format!("dm_{}", c.doc.dm.name()));
        for k in &cc.injected {
            r.classes.push(format!("inject_{:?}", k));
        }
        if variants[0].1 > 0 {
            r.classes.push("error_raised_in_run".into());
        }
        if want_sample {
            r.sample = Some(sample_json(c, &variants[0].0, Some(&real.trace)));
        }
        r
    }
}
