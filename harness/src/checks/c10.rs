//! C10 — rfsm-expression evaluation follows the documented language semantics.

use crate::engine::{hash_str, CaseResult, Check, Phase, Tier};
use crate::expr::*;
use crate::exprrun::*;
use crate::tape::Tape;
use rufsm::datamodel::expression_engine::RFsmExpressionDatamodel;
use serde_json::json;
use std::collections::BTreeMap;

pub struct C10;

/// operand pool of the exhaustive operator-sequence enumeration (every type, numeric edges)
fn pool() -> Vec<E> {
    vec![
        E::Int(0),
        E::Int(1),
        E::Int(-1),
        E::Int(7),
        E::Int(i64::MAX),
        E::Int(i64::MIN),
        E::Dbl(0.5),
        E::Dbl(1e308),
        E::Bool(true),
        E::Bool(false),
        E::Str("a".into()),
        E::Arr(vec![E::Int(1)]),
    ]
}

/// 13 binary operators (':' is a second spelling of '/', kept) + unary '!' on an operand
const ENUM_OPS: [Op; 14] = ALL_OPS;

fn store_for_enum() -> Store {
    Store { vars: BTreeMap::new() }
}

struct Outcome {
    src: String,
    reference: R,
    real: Real,
}

fn compare(reference: &R, real: &Real) -> Result<(), String> {
    match (reference, real) {
        (R::Unspec(_), _) => Ok(()),
        (R::Val(v), Real::Val(w)) => {
            if strict_eq(v, w) {
                Ok(())
            } else {
                Err(format!("expected {:?}, got {:?}", v, w))
            }
        }
        (R::Err | R::Soft, Real::Err(_)) => Ok(()),
        (R::Val(v), Real::Err(e)) => Err(format!("expected {:?}, got error '{}'", v, e)),
        (R::Err | R::Soft, Real::Val(w)) => Err(format!("expected an error, got {:?}", w)),
        (_, Real::Panic(p)) => Err(format!("panic: {}", p)),
    }
}

/// classification of a value mismatch into a root-cause signature
fn classify(e: &E, reference: &R, real: &Real) -> String {
    if let Real::Panic(p) = real {
        let loc = p.rsplit('@').next().unwrap_or("").trim().to_string();
        return format!("panic@{}", loc);
    }
    // associativity: re-evaluate with right-to-left grouping of equal-priority operators
    let has_chain = nontrivial_chain(e);
    let kind = match (reference, real) {
        (R::Val(_), Real::Val(_)) => "value",
        (R::Val(_), Real::Err(_)) => "unexpected-error",
        (R::Err | R::Soft, Real::Val(_)) => "missing-error",
        _ => "other",
    };
    format!("{}{}", kind, if has_chain { "/equal-priority-chain" } else { "" })
}

fn nontrivial_chain(e: &E) -> bool {
    match e {
        E::Bin(op, l, r) => {
            let here = [l, r].iter().any(|c| matches!(&***c, E::Bin(o2, _, _) if o2.prio() == op.prio()));
            here || nontrivial_chain(l) || nontrivial_chain(r)
        }
        E::Arr(v) | E::Call(_, v) | E::Seq(v) => v.iter().any(nontrivial_chain),
        E::Map(m) => m.iter().any(|(_, x)| nontrivial_chain(x)),
        E::Index(a, b) | E::Assign(a, b) | E::Init(a, b) => nontrivial_chain(a) || nontrivial_chain(b),
        E::Member(a, _) | E::Not(a) => nontrivial_chain(a),
        E::MCall(a, _, v) => nontrivial_chain(a) || v.iter().any(nontrivial_chain),
        _ => false,
    }
}

/// Texts that differ only in the order of their characters: the textual form of a map follows
/// HashMap iteration order, which differs between two stores. Only used where the reference
/// does not define the result.
fn same_up_to_order(a: &Real, b: &Real) -> bool {
    match (a, b) {
        (Real::Val(x), Real::Val(y)) => {
            let mut p: Vec<char> = format!("{:?}", x).chars().collect();
            let mut q: Vec<char> = format!("{:?}", y).chars().collect();
            p.sort();
            q.sort();
            p == q
        }
        _ => false,
    }
}

fn store_v(s: &Store) -> BTreeMap<String, V> {
    s.vars.iter().map(|(k, (v, _))| (k.clone(), v.clone())).collect()
}

fn stores_equal(a: &BTreeMap<String, V>, b: &BTreeMap<String, V>) -> Result<(), String> {
    for (k, v) in a {
        match b.get(k) {
            None => return Err(format!("variable {} missing after evaluation", k)),
            Some(w) => {
                if !strict_eq(v, w) {
                    return Err(format!("variable {}: expected {:?}, got {:?}", k, v, w));
                }
            }
        }
    }
    for k in b.keys() {
        if !a.contains_key(k) {
            return Err(format!("unexpected variable {} after evaluation", k));
        }
    }
    Ok(())
}

impl C10 {
    fn run_expr(&self, e: &E, store: &Store, lex_tape: &mut Tape, want_sample: bool) -> CaseResult {
        let canonical = render(e, &mut Lex::canonical());
        let hash = hash_str(&format!("{}|{:?}", canonical, store.vars));
        // reference
        let mut re = RefEval::new(store.clone());
        let reference = re.eval(e);
        let ref_store = store_v(&re.store);
        // real, canonical rendering
        let gd = make_global(store);
        let real = eval_fresh(&canonical, &gd);
        let mut classes: Vec<String> = Vec::new();
        let has_assign = matches!(e, E::Assign(..) | E::Init(..) | E::Seq(_));
        let nontriv = nontrivial(e) || has_assign;
        let sample = |out: &Outcome| json!({"source": out.src, "store": format!("{:?}", store.vars), "reference": format!("{:?}", out.reference), "real": format!("{:?}", out.real)});
        let out = Outcome { src: canonical.clone(), reference: reference.clone(), real: real.clone() };
        if let Err(d) = compare(&reference, &real) {
            let sig = classify(e, &reference, &real);
            return CaseResult::fail(hash, &sig, format!("`{}` with store {:?}: {}", canonical, store.vars, d)).with_sample(sample(&out));
        }
        match &reference {
            R::Unspec(w) => classes.push(format!("unspecified:{}", w)),
            R::Err | R::Soft => classes.push("reference_error".into()),
            R::Val(_) => classes.push("reference_value".into()),
        }
        // store after evaluation (only when the reference defines the outcome)
        if !matches!(reference, R::Unspec(_)) && !matches!(real, Real::Panic(_)) {
            match snapshot(&gd) {
                Ok(snap) => {
                    // an erroring assignment may legitimately have created a location with allow_undefined;
                    // compare only when the reference produced a value
                    if matches!(reference, R::Val(_)) {
                        if let Err(d) = stores_equal(&ref_store, &snap) {
                            return CaseResult::fail(hash, "store-after-evaluation", format!("`{}` with store {:?}: {}", canonical, store.vars, d)).with_sample(sample(&out));
                        }
                    }
                }
                Err(d) => return CaseResult::fail(hash, "store-unreadable", format!("`{}`: {}", canonical, d)),
            }
        }
        if re.order_dependent {
            let mut r = CaseResult::pass(hash, false);
            classes.push("map_to_text_order_dependent".into());
            r.classes = classes;
            return r;
        }
        // metamorphic 1: other whitespace / redundant parentheses, fresh store
        for round in 0..2 {
            let mut lex = Lex { tape: Some(lex_tape), ws_level: 1, paren_pct: if round == 0 { 0 } else { 30 } };
            let alt = render(e, &mut lex);
            if alt == canonical {
                continue;
            }
            let gd2 = make_global(store);
            let real2 = eval_fresh(&alt, &gd2);
            let unspec = matches!(reference, R::Unspec(_));
            if !real_eq(&real, &real2) && !(unspec && same_up_to_order(&real, &real2)) {
                let sig = if round == 0 { "whitespace-dependence" } else { "parentheses-dependence" };
                return CaseResult::fail(hash, sig, format!("`{}` => {:?} but `{}` => {:?} (store {:?})", canonical, real, alt, real2, store.vars));
            }
            classes.push(if round == 0 { "alt_whitespace".into() } else { "alt_parens".into() });
        }
        // metamorphic 2: through the data model with a source id: compiled, then served from the cache
        let scalar_or_err = match &real {
            Real::Val(v) => !v.is_collection(),
            Real::Err(_) => true,
            Real::Panic(_) => false,
        };
        if scalar_or_err {
            let gd3 = make_global(store);
            let mut dm = RFsmExpressionDatamodel::new(gd3.clone());
            let first = eval_datamodel(&mut dm, &canonical, 4711);
            fill_store(&mut gd3.lock().unwrap().data.map, store);
            let second = eval_datamodel(&mut dm, &canonical, 4711);
            for (name, r) in [("compiled", &first), ("cached", &second)] {
                if !real_eq(&real, r) && !(matches!(reference, R::Unspec(_)) && same_up_to_order(&real, r)) {
                    return CaseResult::fail(hash, &format!("{}-path-differs", name), format!("`{}`: fresh => {:?}, {} => {:?} (store {:?})", canonical, real, name, r, store.vars));
                }
            }
            classes.push("cache_path".into());
        }
        let mut r = CaseResult::pass(hash, nontriv);
        r.classes = classes;
        if want_sample {
            r.sample = Some(sample(&out));
        }
        r
    }
}

impl Check for C10 {
    fn id(&self) -> &'static str {
        "C10"
    }
    fn rule(&self) -> String {
        "random: expression ASTs (size<=25) over all operators/operand types with a generated data store, rendered to source; \
         enumeration: every operator sequence of length<=3 over 14 binary operator spellings x 12-value operand pool (with '!' variants). \
         Non-trivial = two adjacent binary operators of equal priority (not the same associative &/|), or Integer/Double mixing, \
         or a saturation-edge literal, or an assignment; distinct = hash of canonical source + store."
            .into()
    }
    fn assumptions(&self) -> Vec<String> {
        vec![
            "operator priority table taken from parser.rs::stack_to_expression (only place it is documented)".into(),
            "cases touching behaviour the README leaves undefined (division by zero, null arithmetic, ordering of non-numbers/strings, Double indices, aliasing) are evaluated for metamorphic relations only".into(),
        ]
    }
    fn phases(&self, tier: Tier) -> Vec<Phase> {
        let p = pool().len() as u64;
        let ops = ENUM_OPS.len() as u64;
        // sequences with 1, 2, 3 operators
        let n1 = p * ops * p;
        let n2 = n1 * ops * p;
        let n3 = n2 * ops * p;
        match tier {
            Tier::Quick => vec![
                Phase::random("random-expressions", 1_500_000, 768).batch(1000).watchdog(5000),
                Phase::indexed("all-sequences-1-op", n1, true).batch(1000),
                Phase::indexed("all-sequences-2-ops", n2, true).batch(5000),
                Phase::indexed("all-sequences-3-ops", 0, true),
                Phase::indexed("regression-sources", regression().len() as u64, true).batch(100),
            ],
            Tier::Thorough => vec![
                Phase::random("random-expressions", 10_000_000, 768).batch(2000).watchdog(5000),
                Phase::indexed("all-sequences-1-op", n1, true).batch(1000),
                Phase::indexed("all-sequences-2-ops", n2, true).batch(5000),
                Phase::indexed("all-sequences-3-ops", n3, true).batch(20000),
                Phase::indexed("regression-sources", regression().len() as u64, true).batch(100),
            ],
        }
    }
    fn min_nontrivial_pct(&self) -> u32 {
        20
    }
    fn describe(&self, phase: usize, tape: &[u8]) -> String {
        if phase == 0 {
            let mut t = Tape::new(tape);
            let store = default_store(&mut t);
            let e = gen_expr(&mut t, &GenCfg { max_size: 25, assignments: true });
            format!("`{}` with store {:?}", render(&e, &mut Lex::canonical()), store.vars)
        } else {
            String::new()
        }
    }
    fn run(&self, phase: usize, tape: &[u8], want_sample: bool) -> CaseResult {
        if phase == 0 {
            let mut t = Tape::new(tape);
            let store = default_store(&mut t);
            let e = gen_expr(&mut t, &GenCfg { max_size: 25, assignments: true });
            self.run_expr(&e, &store, &mut t, want_sample)
        } else if phase == 4 {
            let idx = u64::from_le_bytes(tape[..8].try_into().unwrap()) as usize;
            let reg = regression();
            let (src, expected) = &reg[idx % reg.len()];
            let mut t = Tape::new(&[]);
            let store = default_store(&mut t);
            let gd = make_global(&store);
            let real = eval_fresh(src, &gd);
            let ok = match (expected, &real) {
                (Some(v), Real::Val(w)) => strict_eq(v, w),
                (None, Real::Err(_)) => true,
                _ => false,
            };
            if !ok {
                return CaseResult::fail(hash_str(src), &format!("regression:{}", src), format!("`{}`: expected {:?}, got {:?}", src, expected, real));
            }
            let mut r = CaseResult::pass(hash_str(src), true);
            r.classes.push("regression".into());
            r
        } else {
            // enumeration: idx -> (operand, (op, operand)*)  in mixed radix
            let mut idx = u64::from_le_bytes(tape[..8].try_into().unwrap());
            let nops = phase; // phase 1 -> 1 operator ...
            if nops > 3 {
                return CaseResult::discard("no such phase");
            }
            let pl = pool();
            let p = pl.len() as u64;
            let o = ENUM_OPS.len() as u64;
            let mut operands = Vec::new();
            let mut ops = Vec::new();
            operands.push(pl[(idx % p) as usize].clone());
            idx /= p;
            for _ in 0..nops {
                ops.push(ENUM_OPS[(idx % o) as usize]);
                idx /= o;
                operands.push(pl[(idx % p) as usize].clone());
                idx /= p;
            }
            // build the tree the documentation prescribes: precedence climbing, left to right
            let e = build_flat(&operands, &ops);
            let lt = [0u8; 0];
            let mut t = Tape::new(&lt);
            // flat rendering (no parentheses at all): operands and operators in sequence
            let src = render_flat(&operands, &ops);
            let store = store_for_enum();
            let hash = hash_str(&src);
            let mut re = RefEval::new(store.clone());
            let reference = re.eval(&e);
            let gd = make_global(&store);
            let real = eval_fresh(&src, &gd);
            let _ = &mut t;
            if let Err(d) = compare(&reference, &real) {
                let sig = classify(&e, &reference, &real);
                return CaseResult::fail(hash, &sig, format!("`{}`: {}", src, d));
            }
            let mut r = CaseResult::pass(hash, nops >= 2 || nontrivial(&e));
            if let R::Unspec(_) = reference {
                r.classes.push("unspecified".into());
            }
            if want_sample {
                r.sample = Some(json!({"source": src, "reference": format!("{:?}", reference), "real": format!("{:?}", real)}));
            }
            r
        }
    }
}

/// Minimised inputs of the defects this check found (fixed in /repo, see known_findings.json),
/// with the value the documentation prescribes (None = an error). Store: default_store(zero tape).
fn regression() -> Vec<(String, Option<V>)> {
    let v = |s: &str, x: Option<V>| (s.to_string(), x);
    vec![
        v("10 - 3 - 2", Some(V::Int(5))),
        v("100 / 10 / 5", Some(V::Dbl(2.0))),
        v("7 % 4 % 2", Some(V::Int(1))),
        v("2 * 3 % 4", Some(V::Int(2))),
        v("'a' + 0 - 1", None),
        v("1 - 2 + 3", Some(V::Int(2))),
        v("!!true", Some(V::Bool(true))),
        v("ro ?= 1", None),
        v("ro = 1", None),
        v("m1.k[0]", None),
        v("{'a':[5,6]}.a[1]", Some(V::Int(6))),
        v("[{'a':[5,6]}][0].a[1] + 1", Some(V::Int(7))),
        v("toString(['', 4])", Some(V::Str(",4".into()))),
        v("'\\u00e9' == '\u{e9}'", Some(V::Bool(true))),
        v("{'e2':3}.e2", Some(V::Int(3))),
        v("{'e':3}.e + 1", Some(V::Int(4))),
        v("7 % 0", None),
        v("abs(-9223372036854775807 - 1)", Some(V::Int(i64::MAX))),
        v("[i2, 1] == i2", Some(V::Bool(false))),
        v("9223372036854775807 + 1", Some(V::Int(i64::MAX))),
        v("1 / 2", Some(V::Dbl(0.5))),
        v("1 : 2", Some(V::Dbl(0.5))),
        v("1 + 0.5", Some(V::Dbl(1.5))),
        v("['a'] + ['b'] + 'c' == ['a','b'] + ['c']", Some(V::Bool(true))),
        v("{'b':'abc'} + {'a':123} == {'a':123, 'b':'abc'}", Some(V::Bool(true))),
        v("{'a':1} == {'a':2} + {'a':1}", Some(V::Bool(true))),
        v("{true:'is One', false:'is not 1'}[ i2 == 1 ]", Some(V::Str("is not 1".into()))),
    ]
}

/// Precedence climbing with left-to-right grouping of equal priorities.
pub fn build_flat(operands: &[E], ops: &[Op]) -> E {
    fn climb(operands: &[E], ops: &[Op], pos: &mut usize, max_prio: u8) -> E {
        let mut lhs = operands[*pos].clone();
        while *pos < ops.len() && ops[*pos].prio() <= max_prio {
            let op = ops[*pos];
            *pos += 1;
            // right operand: everything that binds strictly tighter than op
            let rhs = if op.prio() > 0 { climb(operands, ops, pos, op.prio() - 1) } else { operands[*pos].clone() };
            lhs = E::Bin(op, Box::new(lhs), Box::new(rhs));
        }
        lhs
    }
    let mut pos = 0;
    climb(operands, ops, &mut pos, 255)
}

fn render_flat(operands: &[E], ops: &[Op]) -> String {
    let mut s = render(&operands[0], &mut Lex::canonical());
    for (i, op) in ops.iter().enumerate() {
        s.push(' ');
        s.push_str(op.text());
        s.push(' ');
        s.push_str(&render(&operands[i + 1], &mut Lex::canonical()));
    }
    s
}
