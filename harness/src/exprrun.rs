//! Bridge between the reference expression values and the real rFSM expression engine.

use crate::engine::last_panic;
use crate::expr::{Store, V};
use rufsm::datamodel::expression_engine::RFsmExpressionDatamodel;
use rufsm::datamodel::{create_data_arc, create_global_data_arc, Data, DataArc, Datamodel, GlobalDataArc, SourceCode};
use rufsm::expression_engine::parser::ExpressionParser;
use std::collections::{BTreeMap, HashMap};

pub fn v_to_data(v: &V) -> Data {
    match v {
        V::Int(i) => Data::Integer(*i),
        V::Dbl(d) => Data::Double(*d),
        V::Str(s) => Data::String(s.clone()),
        V::Bool(b) => Data::Boolean(*b),
        V::Null => Data::Null(),
        V::NoneV => Data::None(),
        V::ErrV(e) => Data::Error(e.clone()),
        V::Arr(a) => Data::Array(a.iter().map(|x| create_data_arc(v_to_data(x))).collect()),
        V::Map(m) => {
            let mut h = HashMap::new();
            for (k, x) in m {
                h.insert(k.clone(), create_data_arc(v_to_data(x)));
            }
            Data::Map(h)
        }
    }
}

/// Real value, or `Err` for the language's error result (Err(..) or Data::Error).
pub fn data_to_v(d: &Data) -> Result<V, String> {
    Ok(match d {
        Data::Integer(i) => V::Int(*i),
        Data::Double(f) => V::Dbl(*f),
        Data::String(s) => V::Str(s.clone()),
        Data::Boolean(b) => V::Bool(*b),
        Data::Null() => V::Null,
        Data::None() => V::NoneV,
        Data::Source(s) => V::Str(s.source.clone()),
        Data::Error(e) => V::ErrV(e.clone()),
        Data::Array(a) => {
            let mut v = Vec::new();
            for x in a {
                v.push(arc_to_v(x)?);
            }
            V::Arr(v)
        }
        Data::Map(m) => {
            let mut b = BTreeMap::new();
            for (k, x) in m {
                b.insert(k.clone(), arc_to_v(x)?);
            }
            V::Map(b)
        }
    })
}

pub fn arc_to_v(a: &DataArc) -> Result<V, String> {
    match a.arc.try_lock() {
        Ok(g) => data_to_v(&g),
        Err(_) => Err("<value left locked>".to_string()),
    }
}

pub fn make_global(store: &Store) -> GlobalDataArc {
    let gd = create_global_data_arc();
    {
        let mut g = gd.lock().unwrap();
        RFsmExpressionDatamodel::add_internal_functions_to_wrapper(&mut g.actions);
        fill_store(&mut g.data.map, store);
    }
    gd
}

pub fn fill_store(map: &mut HashMap<String, DataArc>, store: &Store) {
    map.clear();
    for (k, (v, ro)) in &store.vars {
        let mut arc = create_data_arc(v_to_data(v));
        if *ro {
            arc.set_readonly(true);
        }
        map.insert(k.clone(), arc);
    }
}

pub fn snapshot(gd: &GlobalDataArc) -> Result<BTreeMap<String, V>, String> {
    let g = gd.lock().map_err(|_| "global data poisoned".to_string())?;
    let mut b = BTreeMap::new();
    for (k, a) in &g.data.map {
        match arc_to_v(a) {
            Ok(v) => {
                b.insert(k.clone(), v);
            }
            Err(e) => return Err(format!("variable {}: {}", k, e)),
        }
    }
    Ok(b)
}

#[derive(Debug, Clone, PartialEq)]
pub enum Real {
    Val(V),
    Err(String),
    Panic(String),
}

/// Parse and evaluate afresh through ExpressionParser::execute.
pub fn eval_fresh(src: &str, gd: &GlobalDataArc) -> Real {
    let r = std::panic::catch_unwind(std::panic::AssertUnwindSafe(|| {
        let mut g = match gd.lock() {
            Ok(g) => g,
            Err(p) => p.into_inner(),
        };
        ExpressionParser::execute(src.to_string(), &mut g)
    }));
    match r {
        Err(_) => Real::Panic(last_panic()),
        Ok(Err(e)) => Real::Err(e),
        Ok(Ok(arc)) => match arc_to_v(&arc) {
            Ok(V::ErrV(e)) => Real::Err(e),
            Ok(v) => Real::Val(v),
            Err(e) => Real::Err(e),
        },
    }
}

/// Evaluate through the data model with a source id (compilation cache).
pub fn eval_datamodel(dm: &mut RFsmExpressionDatamodel, src: &str, id: usize) -> Real {
    let r = std::panic::catch_unwind(std::panic::AssertUnwindSafe(|| dm.execute(&Data::Source(SourceCode::new(src, id)))));
    match r {
        Err(_) => Real::Panic(last_panic()),
        Ok(Err(e)) => Real::Err(e),
        Ok(Ok(arc)) => match arc_to_v(&arc) {
            Ok(v) => Real::Val(v),
            Err(e) => Real::Err(e),
        },
    }
}

/// Strict equality of values: same variant (Integer stays Integer), doubles bit-exact except NaN.
pub fn strict_eq(a: &V, b: &V) -> bool {
    match (a, b) {
        (V::Dbl(x), V::Dbl(y)) => (x.is_nan() && y.is_nan()) || x.to_bits() == y.to_bits() || (*x == 0.0 && *y == 0.0),
        (V::Arr(x), V::Arr(y)) => x.len() == y.len() && x.iter().zip(y.iter()).all(|(p, q)| strict_eq(p, q)),
        (V::Map(x), V::Map(y)) => x.len() == y.len() && x.iter().all(|(k, v)| y.get(k).map(|w| strict_eq(v, w)).unwrap_or(false)),
        (x, y) => x == y,
    }
}

pub fn real_eq(a: &Real, b: &Real) -> bool {
    match (a, b) {
        (Real::Val(x), Real::Val(y)) => strict_eq(x, y),
        (Real::Err(_), Real::Err(_)) => true,
        (Real::Panic(_), Real::Panic(_)) => true,
        _ => false,
    }
}
