fn main() { rfsm_verif::hello(); }
