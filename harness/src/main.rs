use rfsm_verif::engine::{driver_main, worker_main, RunConfig, Tier};

fn main() {
    let args: Vec<String> = std::env::args().collect();
    if args.len() < 2 {
        eprintln!("usage: rfsm_verif <ID> [--tier quick|thorough] [--seed N] [--cases N] [--jobs N] [--replay file] [--no-replay-tier]");
        std::process::exit(2);
    }
    let id = args[1].clone();
    if id == "eval" {
        // probe: evaluate expression sources with the default store (zero tape) and print the results
        rfsm_verif::engine::install_panic_hook();
        for src in &args[2..] {
            let mut t = rfsm_verif::tape::Tape::new(&[]);
            let store = rfsm_verif::expr::default_store(&mut t);
            let gd = rfsm_verif::exprrun::make_global(&store);
            let r = rfsm_verif::exprrun::eval_fresh(src, &gd);
            eprintln!("{:?} => {:?}", src, r);
        }
        return;
    }
    if id == "describe" {
        // describe <ID> <phase> <idx> [seed]
        let check = rfsm_verif::checks::by_id(&args[2]).expect("check id");
        let phase: usize = args[3].parse().unwrap();
        let idx: u64 = args[4].parse().unwrap();
        let seed: u64 = args.get(5).and_then(|s| s.parse().ok()).unwrap_or(20260922);
        let phases = check.phases(Tier::Quick);
        let tape = match &phases[phase].kind {
            rfsm_verif::engine::PhaseKind::Random { tape_len } => rfsm_verif::tape::random_tape(seed, check.id(), phase as u64, idx, *tape_len),
            _ => idx.to_le_bytes().to_vec(),
        };
        println!("{}", check.describe(phase, &tape));
        println!("tape_hex {}", rfsm_verif::tape::to_hex(&tape));
        return;
    }
    let mut tier = match std::env::var("VERIF_TIER").ok().as_deref() {
        Some("thorough") => Tier::Thorough,
        _ => Tier::Quick,
    };
    let mut seed: u64 = std::env::var("VERIF_SEED").ok().and_then(|s| s.trim().parse::<i64>().ok()).map(|v| v as u64).unwrap_or(20260922);
    let mut worker = false;
    let mut cases = None;
    let mut jobs = 16usize;
    let mut replay = None;
    let mut no_replay_tier = false;
    let mut i = 2;
    while i < args.len() {
        match args[i].as_str() {
            "--tier" => {
                i += 1;
                tier = if args[i] == "thorough" { Tier::Thorough } else { Tier::Quick };
            }
            "--seed" => {
                i += 1;
                seed = args[i].parse::<i64>().map(|v| v as u64).unwrap_or(seed);
            }
            "--cases" => {
                i += 1;
                cases = args[i].parse().ok();
            }
            "--jobs" => {
                i += 1;
                jobs = args[i].parse().unwrap_or(16);
            }
            "--replay" => {
                i += 1;
                replay = Some(args[i].clone());
            }
            "--worker" => worker = true,
            "--no-replay-tier" => no_replay_tier = true,
            _ => {}
        }
        i += 1;
    }
    let Some(check) = rfsm_verif::checks::by_id(&id) else {
        eprintln!("unknown check {}", id);
        std::process::exit(2);
    };
    if worker {
        worker_main(check, tier, seed);
        return;
    }
    let code = driver_main(check, RunConfig { tier, seed, jobs, cases_override: cases, replay, no_replay_tier });
    std::process::exit(code);
}
